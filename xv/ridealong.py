"""
Ride-along contracts (M-E1, M-E2, M-E3): wrappers set on the imported xdoctest modules that check an
invariant on EVERY call, whoever makes it - the generated workloads of the property checks, the
repository's own test-suite (xv.ridealong_plugin) or a CLI run started through xv.launch.

The wrappers never change a return value or raise; they record into COUNTS / VIOL.
Private names are optional: if one is missing the monitor reports itself unavailable.
"""
import re
import copy
import functools
import collections

COUNTS = collections.Counter()
VIOL = []           # (property, mechanism, message, details)
UNAVAILABLE = set()
_INSTALLED = set()
MAX_VIOL = 200


def _record(prop, mech, msg, **details):
    if len(VIOL) < MAX_VIOL:
        VIOL.append({'property': prop, 'mechanism': mech, 'message': msg, 'details': details})
    COUNTS['violations'] += 1


# --------------------------------------------------------------------------
# M-E1: the parse-partition contract (C13 oracle (a)), model free
# --------------------------------------------------------------------------

def expected_lines(string):
    """the tab-expanded, commonly de-indented docstring, line by line"""
    s = string.expandtabs()
    # (a docstring's lines end in LF; form feeds and unicode separators stay inside their line: finding F37)
    lines = s.split('\n')
    if lines[-1] == '':
        lines.pop()
    indents = [len(ln) - len(ln.lstrip(' ')) for ln in lines if ln.strip(' ') != '' and ln.lstrip(' ')[:1] not in ('',)]
    # only lines with a non-blank character count
    indents = [len(ln) - len(ln.lstrip(' ')) for ln in lines if ln.strip() != '']
    mi = min(indents) if indents else 0
    if mi > 0:
        lines = [ln[mi:] for ln in lines]
    return lines


def _strip_trailing_blank(seq):
    seq = list(seq)
    while seq and seq[-1].strip() == '':
        seq.pop()
    return seq


def partition_problems(string, parts):
    """[] if `parts` is a partition of `string` in the sense of C13, else a list of (mechanism, message)"""
    exp = _strip_trailing_blank(expected_lines(string))
    rec = []        # (kind, text, part index)
    for pi, p in enumerate(parts):
        if isinstance(p, str):
            rec.extend(('text', ln, pi) for ln in p.split('\n'))
        else:
            off = getattr(p, 'line_offset', None)
            if off != len(rec):
                return [('line-offset', 'part %d records line_offset=%r but its first line is line %d' % (pi, off, len(rec)))]
            ol = p.orig_lines if p.orig_lines is not None else ['>>> ' + ln for ln in p.exec_lines]
            # the executable lines are the original lines without their four-character prompt
            el = getattr(p, 'exec_lines', None)
            if p.orig_lines is not None and el is not None:
                if len(el) != len(ol):
                    return [('exec-lines', 'part %d has %d original lines but %d executable lines' % (pi, len(ol), len(el)))]
                for a_, b_ in zip(ol, el):
                    if a_[4:] != b_:
                        return [('exec-lines', 'part %d: executable line %r is not the original line %r without its prompt' % (
                            pi, b_, a_))]
            rec.extend(('src', ln, pi) for ln in ol)
            rec.extend(('want', ln, pi) for ln in (p.want_lines or []))
    got = list(rec)
    while got and got[-1][1].strip() == '':
        got.pop()
    if len(got) != len(exp):
        return [('line-count', 'parts hold %d lines, the docstring has %d (a line was lost or duplicated)' % (
            len(got), len(exp)))]
    widths = {}
    for i, ((kind, x, pi), y) in enumerate(zip(got, exp)):
        if kind == 'text':
            if x != y and not (x.strip() == '' and y.strip() == ''):
                return [('text-line', 'line %d: text part holds %r, docstring line is %r' % (i, x, y))]
            continue
        if x.strip() == '' and y.strip() == '':
            continue
        ok = False
        w = None
        if y.endswith(x) and y[:len(y) - len(x)].strip(' ') == '':
            ok = True
            w = len(y) - len(x)
        elif kind == 'src' and x.startswith('... ') and y.strip() != '' and y.endswith(x[4:]) \
                and y[:len(y) - len(x[4:])].strip(' ') == '':
            ok = True           # unprefixed line inside a multi-line string gained '... '
            w = len(y) - len(x[4:])
        if not ok:
            return [('source-line' if kind == 'src' else 'want-line',
                     'line %d: %s part holds %r, docstring line is %r' % (i, kind, x, y))]
        # the lost indentation is one common width per part
        if pi in widths and widths[pi] != w:
            return [('indent-width', 'line %d: part %d lost %d blanks here but %d on an earlier line' % (
                i, pi, w, widths[pi]))]
        widths[pi] = w
    return []


def install_parse():
    if 'parse' in _INSTALLED:
        return
    from xdoctest import parser as xparser
    orig = xparser.DoctestParser.parse

    @functools.wraps(orig)
    def parse(self, string, info=None):
        parts = orig(self, string, info)
        try:
            COUNTS['parse_calls'] += 1
            if isinstance(string, str) and isinstance(parts, list):
                probs = partition_problems(string, parts)
                COUNTS['partition_checks'] += 1
                for mech, msg in probs:
                    _record('C13', 'partition-' + mech, msg, docstring=string)
        except Exception as ex:    # a monitor bug must never look like a property violation
            COUNTS['monitor_errors'] += 1
            if len(VIOL) < MAX_VIOL:
                VIOL.append({'property': 'MONITOR', 'mechanism': 'monitor-error', 'message': repr(ex),
                             'details': {'docstring': string}})
        return parts
    xparser.DoctestParser.parse = parse
    _INSTALLED.add('parse')


# --------------------------------------------------------------------------
# M-E2: checker laws on every check_output call
# --------------------------------------------------------------------------

_DOTS_APART = re.compile(r'\.\s+\.')


def install_checker():
    if 'checker' in _INSTALLED:
        return
    from xdoctest import checker, directive
    orig = checker.check_output

    @functools.wraps(orig)
    def check_output(got, want, runstate=None):
        res = orig(got, want, runstate)
        try:
            COUNTS['check_output_calls'] += 1
            if isinstance(got, str) and isinstance(want, str):
                if got == want and not res:
                    _record('C05', 'law-reflexive', 'check_output(x, x) is False for %r' % (got,), got=got, want=want)
                if res and want and runstate is not None and '\r' not in got and '\r' not in want \
                        and not _DOTS_APART.search(want):
                    st = runstate.to_dict() if hasattr(runstate, 'to_dict') else dict(runstate)
                    top = directive.RuntimeState()
                    for k in ('ELLIPSIS', 'NORMALIZE_WHITESPACE', 'IGNORE_WHITESPACE', 'NORMALIZE_REPR'):
                        top[k] = True
                    top['DONT_ACCEPT_BLANKLINE'] = st.get('DONT_ACCEPT_BLANKLINE', False)
                    COUNTS['monotone_checks'] += 1
                    if not orig(got, want, top):
                        _record('C05', 'law-monotone', 'a match under %r is a mismatch with all four leniencies on: '
                                'got=%r want=%r' % ({k: st[k] for k in st if not k.startswith('REPORT')}, got, want),
                                got=got, want=want)
        except Exception as ex:
            COUNTS['monitor_errors'] += 1
            if len(VIOL) < MAX_VIOL:
                VIOL.append({'property': 'MONITOR', 'mechanism': 'monitor-error', 'message': repr(ex), 'details': {}})
        return res
    checker.check_output = check_output
    _INSTALLED.add('checker')


# --------------------------------------------------------------------------
# M-E3: shadow runtime state on every RuntimeState.update
# --------------------------------------------------------------------------

COMPARED_KEYS = ('SKIP', 'REQUIRES', 'ELLIPSIS', 'NORMALIZE_WHITESPACE', 'IGNORE_WHITESPACE', 'NORMALIZE_REPR',
                 'DONT_ACCEPT_BLANKLINE', 'IGNORE_WANT', 'IGNORE_EXCEPTION_DETAIL')


def install_runstate():
    if 'runstate' in _INSTALLED:
        return
    from xdoctest import directive
    RS = directive.RuntimeState
    if not hasattr(RS, 'update') or not hasattr(RS, 'to_dict'):
        UNAVAILABLE.add('RuntimeState.update/to_dict')
        return
    orig_init = RS.__init__
    orig_update = RS.update

    @functools.wraps(orig_init)
    def __init__(self, default_state=None):
        orig_init(self, default_state)
        try:
            d = dict(self.to_dict())
            self._xv_shadow = ({k: (set(v) if isinstance(v, (set, frozenset)) else v) for k, v in d.items()}, {})
        except Exception:
            self._xv_shadow = None

    @functools.wraps(orig_update)
    def update(self, directives):
        directives = list(directives) if not isinstance(directives, dict) else list(directives)
        try:
            before_ok = self._xv_shadow is not None
        except AttributeError:
            before_ok = False
        orig_update(self, directives)
        if not before_ok:
            return
        try:
            COUNTS['runstate_updates'] += 1
            g, _ = self._xv_shadow
            inl = {}
            for d in directives:
                for action, key, value in d.effects():
                    if action == 'noop':
                        continue
                    tgt = inl if d.inline else g
                    if action == 'assign':
                        tgt[key] = value
                    elif action in ('set.add', 'set.remove'):
                        if d.inline and key not in tgt:
                            tgt[key] = set(g.get(key, ()))
                        if action == 'set.add':
                            tgt.setdefault(key, set()).add(value)
                        else:
                            tgt.setdefault(key, set()).discard(value)
            self._xv_shadow = (g, inl)
            exp = dict(g)
            exp.update(inl)
            obs = dict(self.to_dict())
            for k in COMPARED_KEYS:
                if k in obs and k in exp and obs[k] != exp[k]:
                    _record('C04', 'shadow-state', 'after update(%s) the runtime state has %s=%r, the shadow model %r' % (
                        [str(d) for d in directives], k, obs[k], exp[k]), key=k)
                    break
            COUNTS['shadow_comparisons'] += 1
        except Exception as ex:
            COUNTS['monitor_errors'] += 1
            if len(VIOL) < MAX_VIOL:
                VIOL.append({'property': 'MONITOR', 'mechanism': 'monitor-error', 'message': repr(ex), 'details': {}})
    RS.__init__ = __init__
    RS.update = update
    _INSTALLED.add('runstate')


def install(which=('parse', 'checker', 'runstate')):
    for w in which:
        {'parse': install_parse, 'checker': install_checker, 'runstate': install_runstate}[w]()


def drain(ctx, props=None):
    """move what the ride-along monitors recorded into a check's context"""
    for k, n in COUNTS.items():
        if n:
            ctx.event('ridealong:' + k, n)
    COUNTS.clear()
    for u in UNAVAILABLE:
        ctx.unavailable.add(u)
    for v in VIOL:
        if v['property'] == 'MONITOR':
            raise AssertionError('ride-along monitor failed: %s' % v['message'])
        if props is None or v['property'] in props:
            ctx.violation('ridealong-' + v['mechanism'], '[ride-along %s] %s' % (v['property'], v['message']),
                          {'ridealong': True, 'details': v['details']})
    del VIOL[:]

"""Regenerates /verif/MANIFEST.json from the property modules:  python -m xv.manifest"""
import os
import json
import importlib

VERIF = os.path.dirname(os.path.dirname(os.path.abspath(__file__)))
ALL = ['C%02d' % i for i in range(1, 21)]

PENDING_REASON = ('check not built yet in this revision of /verif (see DESIGN.md section 4 for its design); '
                  'nothing is claimed until it exists and is silent on the unchanged tree')


def build():
    checks = []
    not_applicable = []
    for pid in ALL:
        path = os.path.join(VERIF, 'xv', 'props', pid.lower() + '.py')
        if not os.path.exists(path):
            not_applicable.append({'property_id': pid, 'reason': PENDING_REASON})
            continue
        mod = importlib.import_module('xv.props.' + pid.lower())
        if getattr(mod, 'NOT_CLAIMED', None):
            not_applicable.append({'property_id': pid, 'reason': mod.NOT_CLAIMED})
            continue
        checks.append({
            'property_id': pid,
            'quick_cmd': './check %s --tier quick' % pid,
            'thorough_cmd': './check %s --tier thorough' % pid,
            'evidence_file': 'evidence/%s.json' % pid,
            'replay_cmd_template': './check %s --replay {path}' % pid,
            'engine': 'xv',
            'level_claimed': {
                'category': mod.LEVEL,
                'text': mod.LEVEL_TEXT,
                'design_ref': 'DESIGN.md section 4, %s' % pid,
            },
            'level_note': mod.LEVEL_NOTE,
            'technique': mod.TECHNIQUE,
        })
    manifest = {
        'version': 1,
        'setup_cmd': '/venv/bin/python -m xv.setup',
        'hooks': {
            'guard': 'XDOCTEST_VERIF',
            'enable': ('no source hooks: every monitor is attached from the harness (sys.addaudithook, wrappers set on '
                       'the imported xdoctest modules, DocTest.global_namespace); XDOCTEST_VERIF=1 only switches the '
                       'harness-side monitors on in child processes started through xv.launch'),
            'baseline_off_cmd': ('cd /repo && env -u XDOCTEST_VERIF /venv/bin/python -m pytest -ra -q -p no:cacheprovider '
                                 '--timeout=900 --continue-on-collection-errors'),
            'source_commits': [],
            'add_only': True,
        },
        'engines': [{
            'name': 'xv',
            'path': 'xv/',
            'serves_properties': [c['property_id'] for c in checks],
            'kind_free_text': ('runtime monitoring: seeded/enumerated workloads drive the real xdoctest code in 16 worker '
                               'processes while boundary monitors (compile/exec audit events, in-namespace event logs, '
                               'process-state snapshots, CLI/junit observers, ride-along contracts) record executions; '
                               'independent reference models decide over the recordings'),
        }],
        'checks': checks,
        'not_applicable': not_applicable,
        'notes': ('Exit status of every check: 0 held on everything observed, 1 violation (VIOLATION line + replay file), '
                  '2 inconclusive (INCONCLUSIVE line: the deciding monitor observed too little).  Known findings are '
                  'listed in KNOWN_FINDINGS.txt and classified by mechanism.  fix: commits in /repo are recorded there as '
                  '"fixed:" lines.'),
    }
    return manifest


def main():
    m = build()
    path = os.path.join(VERIF, 'MANIFEST.json')
    with open(path, 'w') as f:
        json.dump(m, f, indent=1)
        f.write('\n')
    try:
        import jsonschema
        schema = json.load(open('/root/.vp/MANIFEST.schema.json'))
        jsonschema.validate(m, schema)
        print('MANIFEST.json valid: %d checks, %d not claimed' % (len(m['checks']), len(m['not_applicable'])))
    except ImportError:
        print('MANIFEST.json written (jsonschema not available)')


if __name__ == '__main__':
    main()

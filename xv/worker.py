"""One shard of one check, in its own process:  python -m xv.worker C07 quick 0 3 16 out.json [replay.json]"""
import os
import sys
import json
import traceback


def main(argv):
    prop, tier, seed, shard, nshards, outfile = argv[:6]
    replay = argv[6] if len(argv) > 6 else None
    seed, shard, nshards = int(seed), int(shard), int(nshards)
    from xv import engine
    import xdoctest
    repo_src = os.path.realpath(os.path.join(engine.REPO, 'src'))
    here = os.path.realpath(xdoctest.__file__)
    if not here.startswith(repo_src + os.sep):
        raise SystemExit('xdoctest imported from %s, not from %s' % (here, repo_src))
    mod = engine.import_prop(prop)
    ctx = engine.Ctx(prop, tier, seed, shard, nshards, tmp=os.environ.get('XV_TMP'),
                     replaying=bool(replay))
    ctx.classifier = getattr(mod, 'classify', None)
    try:
        if replay:
            rec = json.load(open(replay))
            v = rec.get('violation', rec)
            mod.replay(v['case'], ctx)
        else:
            mod.run_shard(ctx)
    except BaseException:
        # a harness failure is never folded into "held": the shard is lost
        sys.stdout.write('HARNESS FAILURE in shard %d\n%s\n' % (shard, traceback.format_exc()))
        sys.stdout.flush()
        raise
    with open(outfile + '.tmp', 'w') as f:
        json.dump(engine.jsonable(ctx.to_json()), f)
    os.replace(outfile + '.tmp', outfile)


if __name__ == '__main__':
    main(sys.argv[1:])

"""One shard of one check, in its own process:  python -m xv.worker C07 quick 0 3 16 out.json [replay.json]"""
import os
import sys
import json
import traceback


def start_reach_monitor(repo_src, outdir, tag):
    """XV_COVER=<dir>: record which lines of the repository's sources the workload of this shard reaches
    (sys.monitoring LINE events, each location disabled after its first hit, so the cost is negligible)"""
    import atexit
    mon = sys.monitoring
    tool = mon.COVERAGE_ID
    mon.use_tool_id(tool, 'xv-reach')
    seen = {}

    def on_line(code, line):
        fn = code.co_filename
        if fn.startswith(repo_src):
            seen.setdefault(fn, set()).add(line)
        return mon.DISABLE

    mon.register_callback(tool, mon.events.LINE, on_line)
    mon.set_events(tool, mon.events.LINE)

    def dump():
        os.makedirs(outdir, exist_ok=True)
        with open(os.path.join(outdir, 'reach-%s.json' % tag), 'w') as f:
            json.dump({os.path.relpath(k, repo_src): sorted(v) for k, v in seen.items()}, f)
    atexit.register(dump)


def main(argv):
    prop, tier, seed, shard, nshards, outfile = argv[:6]
    replay = argv[6] if len(argv) > 6 else None
    seed, shard, nshards = int(seed), int(shard), int(nshards)
    from xv import engine
    repo_src = os.path.realpath(os.path.join(engine.REPO, 'src'))
    if os.environ.get('XV_COVER') and not os.environ.get('XV_COVER_SITE'):
        start_reach_monitor(repo_src + os.sep, os.environ['XV_COVER'], '%s-%d' % (prop, shard))
    import xdoctest
    here = os.path.realpath(xdoctest.__file__)
    if not here.startswith(repo_src + os.sep):
        raise SystemExit('xdoctest imported from %s, not from %s' % (here, repo_src))
    mod = engine.import_prop(prop)
    ctx = engine.Ctx(prop, tier, seed, shard, nshards, tmp=os.environ.get('XV_TMP'),
                     replaying=bool(replay))
    ctx.classifier = getattr(mod, 'classify', None)
    try:
        if replay:
            rec = json.load(open(replay))
            v = rec.get('violation', rec)
            mod.replay(v['case'], ctx)
        else:
            mod.run_shard(ctx)
    except BaseException:
        # a harness failure is never folded into "held": the shard is lost
        sys.stdout.write('HARNESS FAILURE in shard %d\n%s\n' % (shard, traceback.format_exc()))
        sys.stdout.flush()
        raise
    with open(outfile + '.tmp', 'w') as f:
        json.dump(engine.jsonable(ctx.to_json()), f)
    os.replace(outfile + '.tmp', outfile)


if __name__ == '__main__':
    main(sys.argv[1:])

"""
C20 - Backwards compatible: what passes under the standard doctest module passes here.

Oracle: the standard library itself.  Texts in standard doctest syntax are generated with wants
computed by REPL semantics (compile(..., 'single') with a recording displayhook), kept only if
doctest.DocTestRunner(optionflags=0) passes them, and must then be collected once, pass under
xdoctest and produce the same event log T (the same examples executed).
"""
import io
import sys
import random
import doctest
import warnings
import contextlib

from xv import harness

PROPERTY = 'C20'
LEVEL = 'exploration'
RULE = ("texts of 1..8 examples in standard syntax: assignments, printing calls, echoed values (int, str, list, dict, None), "
        "compound examples with '...' continuations (with and without a terminating bare '...'), function definitions and "
        "their calls, raising examples with traceback wants (with and without stack lines, multi-line messages, attached notes, compiler-raised SyntaxError, exception groups, chained exceptions, no message), "
        "<BLANKLINE>, ';' lines, comment-only examples, try/except, multi-line literals, examples that print and return a "
        "value, inline '# doctest:' directives SKIP / ELLIPSIS / NORMALIZE_WHITESPACE / IGNORE_EXCEPTION_DETAIL; separation "
        "by blank lines and prose; every example at its own indentation 0/2/4/8, changing after a want (directly), after "
        "a blank line or prose, and (rarely, finding F15) directly under source.  A text is used only if the standard doctest module passes it with "
        "optionflags=0.  Non-trivial = at least one want and one compound or raising example; distinct by text hash.  "
        "Plus the real docstrings of 26 (quick) / 66 (thorough) pure-Python standard-library modules, each run with the "
        "module's globals: those the standard module passes must be collected once and must not fail here")
ASSUMPTIONS = [
    "texts that the standard module itself rejects are generator noise and are skipped (counted as std-rejects)",
    "'executing the same examples' is judged by the event log each example appends its id to",
    "a prompt written at another indentation directly under SOURCE (no want, blank line or prose between) is finding "
    "F15: classified when the same text with a blank line in front of those prompts passes on both sides",
    "an example that prints and returns a non-None value (want = output + repr) is finding F6: classified by that "
    "mechanism (the failing example both printed and returned a value in the reference run)",
]
NSHARDS = {'quick': 16, 'thorough': 16}
RULE += (' Example kinds added during the build: output that holds the characters of the marker, options behind an empty source line, one-line compound statements that echo; every fourth text without indented lines stands under a google header and is collected in auto style.')

PRELUDE = '''
def emit(i):
    T.append(i); print("e%d" % i)
def val(i):
    T.append(i); return i * 10
def pv(i):
    T.append(i); print("pv%d" % i); return "s%d" % i
class E(Exception): pass
def boom(i, msg="bad"):
    T.append(i); raise E(msg)
def boom_noted(i, msg="bad"):
    T.append(i); e = E(msg); e.add_note("note %d" % i); raise e
def boom_from(i):
    T.append(i)
    try:
        {}[i]
    except KeyError as ex:
        raise E("chained %d" % i) from ex
'''
KINDS = ['assign', 'emit', 'val', 'str', 'for', 'def', 'call', 'if', 'raise', 'raise_multi', 'semi', 'mlist', 'comment_ex',
         'skip', 'ellipsis', 'nws', 'blank', 'dict', 'none', 'ied', 'try', 'pv', 'while', 'with', 'raise_builtin', 'strrepr',
         'float', 'tuple', 'printmulti', 'escstr', 'forval', 'ifval', 'onlyblank', 'ied_dot', 'print_then_raise', 'raise_noted', 'raise_syntax',
         'raise_group', 'raise_chained', 'raise_nomsg', 'blank_run', 'blank_edges', 'oneline_for', 'oneline_raise',
         'oneline_ied', 'oneline_silent', 'two_options_ws', 'skip_two_options_ws', 'echo_then_comment',
         'semi_echo_comment', 'comment_then_echo', 'option_on_continuation', 'skip_comment_first',
         'marker_text', 'marker_midline', 'marker_midline_blank', 'skip_behind_blank', 'ied_behind_blank',
         'oneline_echo', 'oneline_if_echo', 'oneline_with_echo', 'ellipsis_many']
# compound statements written on one line: the interactive interpreter wants a bare '...' line behind them
ONELINE = ('oneline_for', 'oneline_raise', 'oneline_ied', 'oneline_silent', 'oneline_echo', 'oneline_if_echo',
           'oneline_with_echo')


def required_cells(tier):
    return (['kind:' + k for k in KINDS if k != 'pv'] + ['terminated-continuation', 'tab-indented-example', 'terminated-one-liner', 'terminated-one-liner:raises', 'stack-lines', 'prose-separation',
            'indent:0', 'indent:4', 'indent:2', 'indent:8', 'both-pass', 'reindent-after-want:less',
            'reindent-after-want:more', 'corpus:both-pass', 'under-a-google-header'])


def gen_example(rng, i, defined):
    k = rng.choice(KINDS)
    if k == 'call' and not defined:
        k = 'emit'
    if k == 'assign':
        src = ['v%d = val(%d)' % (i, i)]
    elif k == 'emit':
        src = ['emit(%d)' % i]
    elif k == 'val':
        src = ['val(%d)' % i]
    elif k == 'str':
        src = ['"s" + str(val(%d))' % i]
    elif k == 'strrepr':
        src = ["'it' + chr(39) + 's ' + str(val(%d))" % i]
    elif k == 'escstr':
        # repr and str differ in more than the quotes (an escape): guards repr-vs-str of echoed values
        src = ['"a\\tb" + str(val(%d))' % i]
    elif k == 'forval':
        # the REPL echoes expression values inside a compound statement
        src = ['for k in range(2):', '    val(%d)' % i]
    elif k == 'ifval':
        src = ['if True:', '    val(%d)' % i]
    elif k == 'float':
        src = ['val(%d) / 4' % i]
    elif k == 'tuple':
        src = ['val(%d), "x"' % i]
    elif k == 'for':
        src = ['for k in range(2):', '    emit(%d)' % i]
    elif k == 'while':
        src = ['n%d = 2' % i]
        k2 = 'while'
        return k2, src + ['SPLIT', 'while n%d:' % i, '    n%d -= 1' % i, '    emit(%d)' % i]
    elif k == 'with':
        src = ['with open(__import__("os").devnull) as fh%d:' % i, '    emit(%d)' % i]
    elif k == 'def':
        defined.append('f%d' % i)
        src = ['def f%d(a):' % i, '    emit(%d)' % i, '    return a']
    elif k == 'call':
        src = ['%s(None)' % rng.choice(defined)]
    elif k == 'if':
        src = ['if val(%d):' % i, '    print("yes%d")' % i, 'else:', '    print("no")']
    elif k == 'raise':
        src = ['boom(%d, "m%d")' % (i, i)]
    elif k == 'raise_multi':
        src = ['boom(%d, "first%d\\nsecond")' % (i, i)]
    elif k == 'raise_builtin':
        src = ['int("x%d" if T.append(%d) is None else "")' % (i, i)]
    elif k == 'semi':
        src = ['v%d = %d; emit(%d)' % (i, i, i)]
    elif k == 'mlist':
        src = ['[val(%d),' % i, ' %d]' % i]
    elif k == 'comment_ex':
        src = ['# just a comment %d' % i]
    elif k == 'skip':
        src = ['boom(%d)  # doctest: +SKIP' % i]
    elif k == 'ellipsis':
        src = ['print("abc%ddef", val(%d))  # doctest: +ELLIPSIS' % (i, i)]
    elif k == 'ellipsis_many':
        # several wildcards that stand for nothing at all: the want is longer than the output
        src = ['print("abc", val(%d))  # doctest: +ELLIPSIS' % i]
    elif k == 'nws':
        src = ['print("a   b", val(%d))  # doctest: +NORMALIZE_WHITESPACE' % i]
    elif k == 'blank':
        src = ['print("x%d\\n\\ny", val(%d))' % (i, i)]
    elif k == 'printmulti':
        src = ['print("l1\\nl2 %d"); T.append(%d)' % (i, i)]
    elif k == 'dict':
        src = ['dict(a=val(%d))' % i]
    elif k == 'none':
        src = ['T.append(%d)' % i]
    elif k == 'ied':
        src = ['boom(%d, "detail%d")  # doctest: +IGNORE_EXCEPTION_DETAIL' % (i, i)]
    elif k == 'blank_run':
        # two and three empty lines in a row: adjacent <BLANKLINE> markers in the want
        src = ['print("x%d\\n\\n\\ny\\n\\n\\n\\nz", val(%d))' % (i, i)]
    elif k == 'blank_edges':
        src = ['print("\\n\\nmid%d\\n\\n" + str(val(%d)))' % (i, i)]
    elif k == 'raise_noted':
        # notes attached to the exception (PEP 678) are printed under the message line
        src = ['boom_noted(%d, "m%d")' % (i, i)]
    elif k == 'raise_syntax':
        src = ['compile("x%d = = 1" if T.append(%d) is None else "", "<s>", "exec")' % (i, i)]
    elif k == 'raise_group':
        src = ['raise ExceptionGroup("g%d", [ValueError(T.append(%d))])' % (i, i)]
    elif k == 'raise_chained':
        src = ['boom_from(%d)' % i]
    elif k == 'raise_nomsg':
        src = ['raise KeyError if T.append(%d) is None else 0' % i]
    elif k == 'print_then_raise':
        # text printed before an expected exception is ignored by the standard module
        src = ['emit(%d) or boom(%d, "after output %d")' % (i, i, i)]
    elif k == 'ied_dot':
        # the real message holds a period, the documented detail differs and has none
        src = ['boom(%d, "ratio must be below 1.5 (%d)")  # doctest: +IGNORE_EXCEPTION_DETAIL' % (i, i)]
    elif k == 'two_options_ws':
        # several options in one comment, separated by blanks only (accepted by the standard module)
        src = ['print("abc%ddef   x", val(%d))  # doctest: +ELLIPSIS +NORMALIZE_WHITESPACE' % (i, i)]
    elif k == 'skip_two_options_ws':
        src = ['boom(%d)  # doctest: +SKIP +ELLIPSIS' % i]
    elif k == 'echo_then_comment':
        # examples that rely on the echo of expression statements and carry a continuation line that is only a comment
        src = ['for k in range(2):', '    val(%d)' % i, '# a comment after the loop']
    elif k == 'semi_echo_comment':
        src = ['x%d = val(%d); x%d' % (i, i, i), '# the value is echoed']
    elif k == 'comment_then_echo':
        src = ['# explanation first', 'for k in range(2):', '    val(%d)' % i]
    elif k == 'option_on_continuation':
        src = ['for w in ["spam%d", "eggs"]:' % i, '    str(val(%d)) + w' % i, '# doctest: +ELLIPSIS']
    elif k == 'skip_comment_first':
        # the option stands in a comment on the first line, the code it applies to on the continuation lines: it is
        # this example's option, the examples behind it are not touched
        src = ['# doctest: +SKIP', 'boom(%d)' % i]
    elif k == 'oneline_for':
        src = ['for k in range(2): emit(%d)' % i]
    elif k == 'oneline_raise':
        src = ['for k in range(3): boom(%d, "m%d")' % (i, i)]
    elif k == 'oneline_ied':
        src = ['if True: boom(%d, "detail%d")  # doctest: +IGNORE_EXCEPTION_DETAIL' % (i, i)]
    elif k == 'oneline_echo':
        # the body of a compound statement written on one line is an expression: the interactive interpreter shows its value
        src = ['for k in range(2): val(%d)' % i]
    elif k == 'oneline_if_echo':
        src = ['if True: val(%d)' % i]
    elif k == 'oneline_with_echo':
        src = ['with open(__import__("os").devnull) as fh: val(%d)' % i]
    elif k == 'oneline_silent':
        src = ['for k in range(2): T.append(%d)' % i]
    elif k == 'try':
        src = ['try:', '    boom(%d)' % i, 'except E:', '    emit(-%d)' % i]
    elif k == 'pv':
        src = ['pv(%d)' % i]
    elif k == 'skip_behind_blank':
        # the option stands on the last line of a statement that holds an empty source line (inside a string)
        src = ["boom(%d, '''first" % i, '', "second''')  # doctest: +SKIP"]
    elif k == 'ied_behind_blank':
        src = ["boom(%d, '''detail" % i, '', "%d''')  # doctest: +IGNORE_EXCEPTION_DETAIL" % i]
    elif k == 'marker_text':
        # the program prints the very characters of the marker: under the standard module the want equals the output
        src = ['print("<BLANKLINE>" * (T.append(%d) is None))' % i]
    elif k == 'marker_midline':
        src = ['print("a <BLANKLINE> b", val(%d))' % i]
    elif k == 'marker_midline_blank':
        # ... inside a line, next to a real empty line: only a marker alone on its line stands for an empty line
        src = ['print("a <BLANKLINE> b\\n\\nc", val(%d))' % i]
    elif k == 'onlyblank':
        # an evaluated expression whose whole output is one empty line: the want is <BLANKLINE>
        src = ['print(end=T.append(%d) or "\\n")' % i]
    return k, src


def repl_run(ns, src):
    """REPL semantics: returns (text the REPL shows, printed text before the echo, echoed value or None, exception)"""
    buf = io.StringIO()
    text = '\n'.join(src) + '\n'
    exc = None
    echoed = []
    old = sys.displayhook

    def hook(v):
        if v is not None:
            echoed.append((v, buf.getvalue()))
            print(repr(v))
    code = compile(text, '<r>', 'single')
    sys.displayhook = hook
    try:
        with contextlib.redirect_stdout(buf):
            try:
                exec(code, ns)
            except Exception as ex:
                exc = ex
    finally:
        sys.displayhook = old
    printed_before = echoed[0][1] if echoed else buf.getvalue()
    value = echoed[0][0] if echoed else None
    return buf.getvalue(), printed_before, value, exc


def make(seed):
    rng = random.Random(seed)
    ns = {'T': []}
    exec(PRELUDE, ns)
    lines = []
    examples = []      # per example: dict(kind, src, print_and_value)
    defined = []
    feats = set()
    n = rng.randint(1, 8)
    i = 0
    # every example carries its own indentation (the standard module strips it per example)
    levels = [0, 4, 4, 2, 8]
    cur = rng.choice([0, 4])
    reindent_prob = rng.choice([0.0, 0.0, 0.3, 0.6])
    after_source = []      # line numbers of prompts written at another indentation directly under SOURCE (finding F15)
    for _ in range(n):
        i += 1
        k, src = gen_example(rng, i, defined)
        chunks = []
        if 'SPLIT' in src:
            j = src.index('SPLIT')
            chunks = [src[:j], src[j + 1:]]
        else:
            chunks = [src]
        want = []
        for src in chunks:
            term = rng.random() < 0.3 and len(src) > 1
            if len(src) == 1 and k not in ('skip', 'comment_ex', 'skip_two_options_ws', 'skip_comment_first', 'skip_behind_blank'):
                # the bare '...' the interactive interpreter shows after a one-line compound statement (rarely pasted
                # after a simple statement too); xdoctest reads it as the first line of the want
                if rng.random() < (0.8 if k in ONELINE else 0.05):
                    term = True
                    feats.add('terminated-one-liner' + (':raises' if k in ('oneline_raise', 'oneline_ied') else ''))
            if k in ('skip', 'comment_ex', 'skip_two_options_ws', 'skip_comment_first', 'skip_behind_blank'):
                out, before, value, exc = '', '', None, None
            else:
                out, before, value, exc = repl_run(ns, src)
            ex_lines = ['>>> ' + src[0]] + [('... ' + ln) if ln else rng.choice(['...', '... ']) for ln in src[1:]]
            if term:
                ex_lines.append('...')
                feats.add('terminated-continuation')
            if exc is not None:
                want = ['Traceback (most recent call last):']
                if rng.random() < 0.5:
                    want.append('  File "<stdin>", line 1, in <module>')
                    feats.add('stack-lines')
                if k in ('ied', 'ied_dot', 'oneline_ied', 'ied_behind_blank'):
                    want.append('E: other detail')
                else:
                    from xv import models
                    want.extend(models.exception_text(exc).split('\n'))
            else:
                want = []
                if k == 'ellipsis':
                    out = out.replace('c%dd' % i, '...')
                if k == 'ellipsis_many':
                    out = out.replace('abc', 'a...b...c')
                if k == 'option_on_continuation':
                    out = out.replace('spam%d' % i, 'sp...')
                if k == 'two_options_ws':
                    out = out.replace('c%dd' % i, '...').replace('def   x', 'def x')
                if k == 'nws':
                    out = out.replace('a   b', 'a b')
                for w in (out[:-1].split('\n') if out else []):
                    want.append(w if w.strip() else '<BLANKLINE>')
            examples.append({'kind': k, 'src': src, 'print_and_value': bool(before) and value is not None,
                             'first_line': ex_lines[0]})
            pad = ' ' * cur
            if cur == 8 and rng.random() < 0.35:
                # this example is indented with one TAB where its neighbours have eight blanks: the same columns, the
                # standard module expands tabs before anything else
                pad = '\t'
                feats.add('tab-indented-example')
            lines += [pad + ln for ln in ex_lines + want]
        feats.add('kind:' + k)
        feats.add('indent:%d' % cur)
        r = rng.random()
        separated = False
        if r < 0.2:
            lines.append('')
            separated = True
        elif r < 0.3:
            lines += ['', 'Some prose here.', '']
            feats.add('prose-separation')
            separated = True
        if (want or separated) and rng.random() < reindent_prob:
            new = rng.choice([x for x in levels if x != cur])
            if want and not separated:
                feats.add('reindent-after-want:' + ('less' if new < cur else 'more'))
            cur = new
        elif not want and not separated and rng.random() < 0.03:
            # directly under source, no want between: accepted by the standard module, finding F15 here
            cur = rng.choice([x for x in levels if x != cur])
            after_source.append(len(lines))
    return '\n'.join(lines), examples, feats, after_source


def run_std(doc):
    ns = {'T': []}
    exec(PRELUDE, ns)
    t = doctest.DocTestParser().get_doctest(doc, ns, 'x', 'x', 0)
    r = doctest.DocTestRunner(optionflags=0, verbose=False)
    with contextlib.redirect_stdout(io.StringIO()):
        res = r.run(t, out=lambda s: None, clear_globs=False)
    return res, ns['T']


class _Sink(object):
    """recorder for the sub-run of a repaired text: keeps violations, counts nothing"""
    shard = -1

    def __init__(self, known_keys=()):
        self.found = []
        self.known_keys = set(known_keys)

    def violation(self, mech, msg, case, **kw):
        # another listed finding met in the repaired text (e.g. F6) is not a new cause
        v = dict(kw, mechanism=mech, message=msg, case=case)
        if classify(v) not in self.known_keys:
            self.found.append((mech, msg))

    def evaluation(self, *a, **k): pass
    event = cell = nontrivial = sample = evaluation


def repaired_text(doc, after_source):
    """the same text with a blank line in front of every prompt that was re-indented directly under source"""
    lines = doc.split('\n')
    for k in sorted(after_source, reverse=True):
        lines.insert(k, '')
    return '\n'.join(lines)


def check_case(ctx, index, seed, doc_override=None):
    doc, examples, feats, after_source = make(seed)
    if after_source and len(doc.split('\n')) <= after_source[-1]:
        after_source = [k for k in after_source if k < len(doc.split('\n'))]      # the change came after the last example
    case = {'index': index, 'case_seed': seed, 'doc': doc, 'reindent_after_source': after_source,
            'print_and_value': [e['first_line'] for e in examples if e['print_and_value']]}
    style = 'freeform'
    if doc_override is None and index % 4 == 2 and 'prose-separation' not in feats and all(
            ln == ln.lstrip() for ln in doc.split('\n') if ln.strip()):
        # the examples stand under a google-style header, an empty line between, at the header's own indentation (the
        # layout of many standard-library docstrings); collected the way the native runner does by default
        doc = 'Example:\n\n' + doc
        after_source = [k + 2 for k in after_source]
        case['doc'] = doc
        case['reindent_after_source'] = after_source
        style = 'auto'
        feats = set(feats) | {'under-a-google-header'}
    if doc_override is not None:
        doc = doc_override
        case['doc'] = doc
        if doc.startswith('Example:\n'):
            style = 'auto'
    try:
        res, Tstd = run_std(doc)
    except Exception as ex:
        ctx.cell('std-rejects')
        return
    if res.failed:
        ctx.cell('std-rejects')
        return
    ctx.evaluation()
    ctx.event('stdlib_doctest_passes')
    if any(e['kind'] in ('for', 'def', 'if', 'try', 'while', 'with', 'raise', 'raise_multi', 'ied', 'ied_dot', 'raise_builtin', 'print_then_raise', 'raise_noted', 'raise_syntax', 'raise_group',
                            'raise_chained', 'raise_nomsg')
           for e in examples) and len(doc.split('\n')) > len([e for e in examples]):
        ctx.nontrivial(doc)

    def bad(mech, msg, **kw):
        if after_source and doc_override is None:
            # finding F15 by mechanism: with a blank line in front of the re-indented prompts (nothing else changed)
            # the text must go through cleanly; otherwise the violation has another cause and is reported as such
            sub = _Sink(getattr(ctx, 'known_keys', ()))
            check_case(sub, index, seed, doc_override=repaired_text(doc, after_source))
            kw['f15_only_cause'] = not sub.found
        ctx.violation(mech, msg + '\n--- text (passes under the standard doctest module: %d examples attempted) ---\n%s' % (
            res.attempted, doc), case, **kw)

    try:
        exs, wl, printed = harness.collect(doc, style=style)
    except Exception as ex:
        bad('collect-raised', 'parse_docstr_examples raised %r' % (ex,))
        return
    if len(exs) != 1:
        bad('not-collected-once', 'xdoctest collects %d doctests from a text the standard module accepts: %s' % (
            len(exs), [str(w.message)[:200] for w in wl][:1]))
        return
    dt = exs[0]
    dt.mode = 'native'
    T = []
    ns = {'T': T}
    exec(PRELUDE, ns)
    dt.global_namespace.update(ns)
    try:
        with contextlib.redirect_stdout(io.StringIO()):
            s = dt.run(on_error='return', verbose=0)
    except BaseException as ex:
        bad('run-raised', 'xdoctest run raised %r' % (ex,))
        return
    ctx.event('xdoctest_runs')
    if s['failed']:
        fp = getattr(dt, 'failed_part', None)
        fl = None
        try:
            fl = fp.orig_lines[0].strip() if fp is not None and not isinstance(fp, str) else None
        except Exception:
            pass
        bad('xdoctest-fails', 'passes under the standard doctest module but fails under xdoctest: %r at %r' % (
            s['exc_info'][1], fl), failing_first_line=fl, exc=type(s['exc_info'][1]).__name__)
        return
    if s['skipped'] and Tstd:
        bad('xdoctest-skips', 'the standard module executed examples %r, xdoctest reports the doctest skipped' % (Tstd,))
        return
    if T != Tstd:
        bad('different-examples', 'xdoctest executed examples %r, the standard module %r' % (T, Tstd), observed=T,
            expected=Tstd)
        return
    ctx.cell('both-pass')
    if after_source:
        ctx.cell('reindent-after-source-passes')
    for f in feats:
        ctx.cell(f)
    if ctx.shard == 0:
        ctx.sample({'text': doc, 'stdlib_attempted': res.attempted, 'event_log_both': T}, limit=3)


# ------------------------------------------------------------------ real doctests of the standard library

CORPUS_QUICK = ['collections', 'difflib', 'textwrap', 'statistics', 'fractions', 'heapq', 'bisect', 'string', 'shlex',
                'ipaddress', 'enum', 'dataclasses', 'calendar', 'pprint', 'reprlib', 'urllib.parse', 'fnmatch', 'graphlib',
                'html', 'keyword', 'posixpath', 'ntpath', 'json', 'json.encoder', 'json.decoder', 'functools']
CORPUS_MORE = ['decimal', 'datetime', 'copy', 'operator', 'types', 'typing', 'unittest.mock', 'zipfile', 'ast', 'inspect',
               'locale', 'numbers', 'random', 'secrets', 'struct', 'tokenize', 'colorsys', 'csv', 'glob', 'http.cookies',
               'mimetypes', 'nturl2path', 'pickletools', 'quopri', 'sched', 'stat', 'timeit', 'uuid', 'wave',
               'xml.dom.minidom', 'xml.etree.ElementTree', 'email.utils', 'email.headerregistry', 'logging', 'argparse',
               'base64', 'codecs', 'contextlib', 'abc', 're']


def check_stdlib_module(ctx, modname):
    """every docstring of a pure-Python standard-library module that the standard doctest module passes
    (optionflags=0, module globals) must be collected once and must not fail under xdoctest"""
    import copy
    import importlib
    from xdoctest import core
    try:
        m = importlib.import_module(modname)
        if not getattr(m, '__file__', '').endswith('.py'):
            return
        tests = doctest.DocTestFinder(exclude_empty=True).find(m)
    except Exception:
        return
    for t in sorted(tests, key=lambda t: t.name):
        if not t.examples or not t.docstring:
            continue
        t2 = copy.copy(t)
        t2.globs = dict(m.__dict__)
        try:
            with contextlib.redirect_stdout(io.StringIO()), contextlib.redirect_stderr(io.StringIO()):
                res = doctest.DocTestRunner(optionflags=0, verbose=False).run(t2, out=lambda s: None, clear_globs=True)
        except BaseException:
            continue
        if res.failed:
            ctx.cell('corpus:std-rejects')
            continue
        ctx.evaluation()
        ctx.event('stdlib_corpus_doctests_passing_under_doctest')
        case = {'corpus': modname, 'name': t.name, 'doc': t.docstring}

        def bad(mech, msg):
            ctx.violation(mech, '%s: %s\n--- docstring (passes under the standard doctest module, %d examples attempted) ---\n%s' % (
                t.name, msg, res.attempted, t.docstring), case)
        try:
            with warnings.catch_warnings(), contextlib.redirect_stdout(io.StringIO()):
                warnings.simplefilter('ignore')
                exs = list(core.parse_docstr_examples(t.docstring, callname=t.name, modpath=m.__file__, style='freeform'))
        except Exception as ex:
            bad('collect-raised', 'parse_docstr_examples raised %r' % (ex,))
            continue
        if len(exs) != 1:
            bad('not-collected-once', 'xdoctest collects %d doctests' % len(exs))
            continue
        e = exs[0]
        e.mode = 'native'
        try:
            with contextlib.redirect_stdout(io.StringIO()), contextlib.redirect_stderr(io.StringIO()):
                s = e.run(on_error='return', verbose=0)
        except BaseException as ex:
            bad('run-raised', 'xdoctest run raised %r' % (ex,))
            continue
        if s['failed']:
            fp = getattr(e, 'failed_part', None)
            bad('xdoctest-fails', 'fails under xdoctest: %r at %r' % (
                s['exc_info'][1], fp.orig_lines[0] if hasattr(fp, 'orig_lines') else fp))
            continue
        if s['skipped'] and res.attempted:
            bad('xdoctest-skips', 'the standard module executed %d examples, xdoctest reports the doctest skipped' % res.attempted)
            continue
        ctx.cell('corpus:both-pass')
        ctx.nontrivial(t.docstring)


def run_shard(ctx):
    warnings.simplefilter('ignore')
    n = ctx.pick(4000, 80000)
    for idx in ctx.my_indices(n):
        check_case(ctx, idx, ctx.case_seed(idx))
    mods = CORPUS_QUICK + ([] if ctx.quick() else CORPUS_MORE)
    for mn in mods[ctx.shard::ctx.nshards]:
        check_stdlib_module(ctx, mn)


def replay(case, ctx):
    warnings.simplefilter('ignore')
    if 'corpus' in case:
        check_stdlib_module(ctx, case['corpus'])
        return
    check_case(ctx, case['index'], case['case_seed'])


def classify(v):
    # F15 by mechanism: the text holds a prompt re-indented directly under source, and the same text with a blank line
    # in front of those prompts passes on both sides
    if v['case'].get('reindent_after_source') and v.get('f15_only_cause') is True:
        return 'prompt-reindented-after-source'
    # F6 by mechanism: the failing example both printed text and returned a non-None value in the REPL reference run
    if v.get('mechanism') == 'xdoctest-fails' and v.get('exc') == 'GotWantException':
        fl = v.get('failing_first_line')
        pav = v['case'].get('print_and_value', [])
        if fl and any(fl == x.strip() for x in pav):
            return 'print-plus-value-want'
    return None


LEVEL_TEXT = ("Exploration by differential monitoring against the standard library: thousands of texts in standard doctest "
              "syntax whose wants come from REPL semantics are first run by doctest.DocTestRunner(optionflags=0); every text it "
              "passes must be collected once, pass under xdoctest and execute the same examples (event log).")
LEVEL_NOTE = ("Trusted: the standard doctest module as the executable definition of 'passes'; REPL semantics via "
              "compile(..., 'single') and a recording displayhook for the wants.")
TECHNIQUE = "runtime monitor: differential oracle against the standard library doctest module (verdict + unique-id event log) on generated standard-syntax texts"

"""
C20 - Backwards compatible: what passes under the standard doctest module passes here.

Oracle: the standard library itself.  Texts in standard doctest syntax are generated with wants
computed by REPL semantics (compile(..., 'single') with a recording displayhook), kept only if
doctest.DocTestRunner(optionflags=0) passes them, and must then be collected once, pass under
xdoctest and produce the same event log T (the same examples executed).
"""
import io
import sys
import random
import doctest
import warnings
import contextlib

from xv import harness

PROPERTY = 'C20'
LEVEL = 'exploration'
RULE = ("texts of 1..8 examples in standard syntax: assignments, printing calls, echoed values (int, str, list, dict, None), "
        "compound examples with '...' continuations (with and without a terminating bare '...'), function definitions and "
        "their calls, raising examples with traceback wants (with and without stack lines, multi-line messages), "
        "<BLANKLINE>, ';' lines, comment-only examples, try/except, multi-line literals, examples that print and return a "
        "value, inline '# doctest:' directives SKIP / ELLIPSIS / NORMALIZE_WHITESPACE / IGNORE_EXCEPTION_DETAIL; separation "
        "by blank lines and prose; indentation 0 or 4.  A text is used only if the standard doctest module passes it with "
        "optionflags=0.  Non-trivial = at least one want and one compound or raising example; distinct by text hash")
ASSUMPTIONS = [
    "texts that the standard module itself rejects are generator noise and are skipped (counted as std-rejects)",
    "'executing the same examples' is judged by the event log each example appends its id to",
    "an example that prints and returns a non-None value (want = output + repr) is finding F6: classified by that "
    "mechanism (the failing example both printed and returned a value in the reference run)",
]
NSHARDS = {'quick': 16, 'thorough': 16}

PRELUDE = '''
def emit(i):
    T.append(i); print("e%d" % i)
def val(i):
    T.append(i); return i * 10
def pv(i):
    T.append(i); print("pv%d" % i); return "s%d" % i
class E(Exception): pass
def boom(i, msg="bad"):
    T.append(i); raise E(msg)
'''
KINDS = ['assign', 'emit', 'val', 'str', 'for', 'def', 'call', 'if', 'raise', 'raise_multi', 'semi', 'mlist', 'comment_ex',
         'skip', 'ellipsis', 'nws', 'blank', 'dict', 'none', 'ied', 'try', 'pv', 'while', 'with', 'raise_builtin', 'strrepr',
         'float', 'tuple', 'printmulti', 'escstr', 'forval', 'ifval']


def required_cells(tier):
    return (['kind:' + k for k in KINDS if k != 'pv'] + ['terminated-continuation', 'stack-lines', 'prose-separation',
            'indent:0', 'indent:4', 'both-pass'])


def gen_example(rng, i, defined):
    k = rng.choice(KINDS)
    if k == 'call' and not defined:
        k = 'emit'
    if k == 'assign':
        src = ['v%d = val(%d)' % (i, i)]
    elif k == 'emit':
        src = ['emit(%d)' % i]
    elif k == 'val':
        src = ['val(%d)' % i]
    elif k == 'str':
        src = ['"s" + str(val(%d))' % i]
    elif k == 'strrepr':
        src = ["'it' + chr(39) + 's ' + str(val(%d))" % i]
    elif k == 'escstr':
        # repr and str differ in more than the quotes (an escape): guards repr-vs-str of echoed values
        src = ['"a\\tb" + str(val(%d))' % i]
    elif k == 'forval':
        # the REPL echoes expression values inside a compound statement
        src = ['for k in range(2):', '    val(%d)' % i]
    elif k == 'ifval':
        src = ['if True:', '    val(%d)' % i]
    elif k == 'float':
        src = ['val(%d) / 4' % i]
    elif k == 'tuple':
        src = ['val(%d), "x"' % i]
    elif k == 'for':
        src = ['for k in range(2):', '    emit(%d)' % i]
    elif k == 'while':
        src = ['n%d = 2' % i]
        k2 = 'while'
        return k2, src + ['SPLIT', 'while n%d:' % i, '    n%d -= 1' % i, '    emit(%d)' % i]
    elif k == 'with':
        src = ['with open(__import__("os").devnull) as fh%d:' % i, '    emit(%d)' % i]
    elif k == 'def':
        defined.append('f%d' % i)
        src = ['def f%d(a):' % i, '    emit(%d)' % i, '    return a']
    elif k == 'call':
        src = ['%s(None)' % rng.choice(defined)]
    elif k == 'if':
        src = ['if val(%d):' % i, '    print("yes%d")' % i, 'else:', '    print("no")']
    elif k == 'raise':
        src = ['boom(%d, "m%d")' % (i, i)]
    elif k == 'raise_multi':
        src = ['boom(%d, "first%d\\nsecond")' % (i, i)]
    elif k == 'raise_builtin':
        src = ['int("x%d" if T.append(%d) is None else "")' % (i, i)]
    elif k == 'semi':
        src = ['v%d = %d; emit(%d)' % (i, i, i)]
    elif k == 'mlist':
        src = ['[val(%d),' % i, ' %d]' % i]
    elif k == 'comment_ex':
        src = ['# just a comment %d' % i]
    elif k == 'skip':
        src = ['boom(%d)  # doctest: +SKIP' % i]
    elif k == 'ellipsis':
        src = ['print("abc%ddef", val(%d))  # doctest: +ELLIPSIS' % (i, i)]
    elif k == 'nws':
        src = ['print("a   b", val(%d))  # doctest: +NORMALIZE_WHITESPACE' % i]
    elif k == 'blank':
        src = ['print("x%d\\n\\ny", val(%d))' % (i, i)]
    elif k == 'printmulti':
        src = ['print("l1\\nl2 %d"); T.append(%d)' % (i, i)]
    elif k == 'dict':
        src = ['dict(a=val(%d))' % i]
    elif k == 'none':
        src = ['T.append(%d)' % i]
    elif k == 'ied':
        src = ['boom(%d, "detail%d")  # doctest: +IGNORE_EXCEPTION_DETAIL' % (i, i)]
    elif k == 'try':
        src = ['try:', '    boom(%d)' % i, 'except E:', '    emit(-%d)' % i]
    elif k == 'pv':
        src = ['pv(%d)' % i]
    return k, src


def repl_run(ns, src):
    """REPL semantics: returns (text the REPL shows, printed text before the echo, echoed value or None, exception)"""
    buf = io.StringIO()
    text = '\n'.join(src) + '\n'
    exc = None
    echoed = []
    old = sys.displayhook

    def hook(v):
        if v is not None:
            echoed.append((v, buf.getvalue()))
            print(repr(v))
    code = compile(text, '<r>', 'single')
    sys.displayhook = hook
    try:
        with contextlib.redirect_stdout(buf):
            try:
                exec(code, ns)
            except Exception as ex:
                exc = ex
    finally:
        sys.displayhook = old
    printed_before = echoed[0][1] if echoed else buf.getvalue()
    value = echoed[0][0] if echoed else None
    return buf.getvalue(), printed_before, value, exc


def make(seed):
    rng = random.Random(seed)
    ns = {'T': []}
    exec(PRELUDE, ns)
    lines = []
    examples = []      # per example: dict(kind, src, print_and_value)
    defined = []
    feats = set()
    n = rng.randint(1, 8)
    i = 0
    for _ in range(n):
        i += 1
        k, src = gen_example(rng, i, defined)
        chunks = []
        if 'SPLIT' in src:
            j = src.index('SPLIT')
            chunks = [src[:j], src[j + 1:]]
        else:
            chunks = [src]
        for src in chunks:
            term = rng.random() < 0.3 and len(src) > 1
            if k in ('skip', 'comment_ex'):
                out, before, value, exc = '', '', None, None
            else:
                out, before, value, exc = repl_run(ns, src)
            ex_lines = ['>>> ' + src[0]] + ['... ' + ln for ln in src[1:]]
            if term:
                ex_lines.append('...')
                feats.add('terminated-continuation')
            if exc is not None:
                want = ['Traceback (most recent call last):']
                if rng.random() < 0.5:
                    want.append('  File "<stdin>", line 1, in <module>')
                    feats.add('stack-lines')
                if k == 'ied':
                    want.append('E: other detail')
                else:
                    import traceback
                    last = traceback.format_exception_only(type(exc), exc)[-1].rstrip('\n')
                    want.extend(last.split('\n'))
            else:
                want = []
                if k == 'ellipsis':
                    out = out.replace('c%dd' % i, '...')
                if k == 'nws':
                    out = out.replace('a   b', 'a b')
                for w in (out.rstrip('\n').split('\n') if out else []):
                    want.append(w if w.strip() else '<BLANKLINE>')
            examples.append({'kind': k, 'src': src, 'print_and_value': bool(before) and value is not None,
                             'first_line': ex_lines[0]})
            lines += ex_lines + want
        feats.add('kind:' + k)
        r = rng.random()
        if r < 0.2:
            lines.append('')
        elif r < 0.3:
            lines += ['', 'Some prose here.', '']
            feats.add('prose-separation')
    ind = rng.choice(['', '    '])
    feats.add('indent:%d' % len(ind))
    return '\n'.join(ind + ln if ln else ln for ln in lines), examples, feats


def run_std(doc):
    ns = {'T': []}
    exec(PRELUDE, ns)
    t = doctest.DocTestParser().get_doctest(doc, ns, 'x', 'x', 0)
    r = doctest.DocTestRunner(optionflags=0, verbose=False)
    with contextlib.redirect_stdout(io.StringIO()):
        res = r.run(t, out=lambda s: None, clear_globs=False)
    return res, ns['T']


def check_case(ctx, index, seed):
    doc, examples, feats = make(seed)
    case = {'index': index, 'case_seed': seed, 'doc': doc,
            'print_and_value': [e['first_line'] for e in examples if e['print_and_value']]}
    try:
        res, Tstd = run_std(doc)
    except Exception as ex:
        ctx.cell('std-rejects')
        return
    if res.failed:
        ctx.cell('std-rejects')
        return
    ctx.evaluation()
    ctx.event('stdlib_doctest_passes')
    if any(e['kind'] in ('for', 'def', 'if', 'try', 'while', 'with', 'raise', 'raise_multi', 'ied', 'raise_builtin')
           for e in examples) and len(doc.split('\n')) > len([e for e in examples]):
        ctx.nontrivial(doc)

    def bad(mech, msg, **kw):
        ctx.violation(mech, msg + '\n--- text (passes under the standard doctest module: %d examples attempted) ---\n%s' % (
            res.attempted, doc), case, **kw)

    try:
        exs, wl, printed = harness.collect(doc, style='freeform')
    except Exception as ex:
        bad('collect-raised', 'parse_docstr_examples raised %r' % (ex,))
        return
    if len(exs) != 1:
        bad('not-collected-once', 'xdoctest collects %d doctests from a text the standard module accepts: %s' % (
            len(exs), [str(w.message)[:200] for w in wl][:1]))
        return
    dt = exs[0]
    dt.mode = 'native'
    T = []
    ns = {'T': T}
    exec(PRELUDE, ns)
    dt.global_namespace.update(ns)
    try:
        with contextlib.redirect_stdout(io.StringIO()):
            s = dt.run(on_error='return', verbose=0)
    except BaseException as ex:
        bad('run-raised', 'xdoctest run raised %r' % (ex,))
        return
    ctx.event('xdoctest_runs')
    if s['failed']:
        fp = getattr(dt, 'failed_part', None)
        fl = None
        try:
            fl = fp.orig_lines[0].strip() if fp is not None and not isinstance(fp, str) else None
        except Exception:
            pass
        bad('xdoctest-fails', 'passes under the standard doctest module but fails under xdoctest: %r at %r' % (
            s['exc_info'][1], fl), failing_first_line=fl, exc=type(s['exc_info'][1]).__name__)
        return
    if s['skipped'] and Tstd:
        bad('xdoctest-skips', 'the standard module executed examples %r, xdoctest reports the doctest skipped' % (Tstd,))
        return
    if T != Tstd:
        bad('different-examples', 'xdoctest executed examples %r, the standard module %r' % (T, Tstd), observed=T,
            expected=Tstd)
        return
    ctx.cell('both-pass')
    for f in feats:
        ctx.cell(f)
    if ctx.shard == 0:
        ctx.sample({'text': doc, 'stdlib_attempted': res.attempted, 'event_log_both': T}, limit=3)


def run_shard(ctx):
    warnings.simplefilter('ignore')
    n = ctx.pick(4000, 80000)
    for idx in ctx.my_indices(n):
        check_case(ctx, idx, ctx.case_seed(idx))


def replay(case, ctx):
    warnings.simplefilter('ignore')
    check_case(ctx, case['index'], case['case_seed'])


def classify(v):
    # F6 by mechanism: the failing example both printed text and returned a non-None value in the REPL reference run
    if v.get('mechanism') == 'xdoctest-fails' and v.get('exc') == 'GotWantException':
        fl = v.get('failing_first_line')
        pav = v['case'].get('print_and_value', [])
        if fl and any(fl == x.strip() for x in pav):
            return 'print-plus-value-want'
    return None


LEVEL_TEXT = ("Exploration by differential monitoring against the standard library: thousands of texts in standard doctest "
              "syntax whose wants come from REPL semantics are first run by doctest.DocTestRunner(optionflags=0); every text it "
              "passes must be collected once, pass under xdoctest and execute the same examples (event log).")
LEVEL_NOTE = ("Trusted: the standard doctest module as the executable definition of 'passes'; REPL semantics via "
              "compile(..., 'single') and a recording displayhook for the wants.")
TECHNIQUE = "runtime monitor: differential oracle against the standard library doctest module (verdict + unique-id event log) on generated standard-syntax texts"

"""
C14 - Malformed docstrings are contained: bad syntax never crashes collection.

Grammar fuzz of docstring text, alone (parser + example extraction, three styles) and embedded as one
docstring between two valid marker-carrying ones in a module file.
Monitors: exception type out of DoctestParser.parse, warnings and results of
core.parse_docstr_examples / parse_doctestables, a process-CPU-time deadline (ITIMER_PROF).
"""
import io
import os
import sys
import signal
import random
import warnings
import contextlib

PROPERTY = 'C14'
LEVEL = 'exploration'
RULE = ("strings of 1..30 fragments drawn from prompts with and without the blank, brackets, quotes, triple quotes, "
        "backslashes, directive fragments (also truncated), keywords, ':' ';' '@', tabs, form feed, NUL, CR, non-ASCII, "
        "google tags, numbers; a second generator damages a valid doctest by one edit (delete/insert a bracket, quote, "
        "prompt or indentation).  Each string goes through DoctestParser.parse and core.parse_docstr_examples x {auto, "
        "google, freeform}; a subset is embedded as the middle docstring of a module between two valid doctests and "
        "collected with parse_doctestables x 3 styles, the neighbours are run.  Non-trivial = the string contains a prompt "
        "and the parser rejects it or splits it into 2+ parts; distinct by text hash")
ASSUMPTIONS = [
    "'never hangs' is restated as bounded progress: a docstring of at most 60 lines is parsed within 10 s of process CPU "
    "time (typical cost < 10 ms); a wall-clock watchdog exists only around whole shards and its firing is inconclusive",
    "for google/auto style only 'no exception, every returned example parses' is asserted: a malformed block after "
    "well formed ones leaves the earlier blocks' examples in place; 'warning and no example' is asserted for freeform",
    "fuzz strings that cannot be written as a Python string literal in a module (NUL) are used stand-alone only",
]
NSHARDS = {'quick': 16, 'thorough': 16}
RULE += (' Directed probes: malformed directives in eleven shapes; unfinishable syntax incl. bare prompts x three layouts x three styles (finding F52 for blocks in front of a broken one); broken-module-run: six kinds of broken text (braces, percent signs) x two layouts x three verbosities through the native runner, the sound neighbours must pass and the summary must come back.')
CPU_BUDGET_S = 10

FRAGS = ['>>> ', '... ', '>>>', '...', '    ', '  ', '\n', '\n', '\n', '(', ')', '[', ']', '{', '}', "'", '"', "'''", '"""',
         '\\', '\\\n', '#', '# xdoctest: +SKIP', '# doctest: +ELLIPSIS', '# xdoctest: +REQUIRES(', '# xdoctest: +NOPE',
         '# xdoctest: requires(module:', 'x = 1', 'print(x)', 'def f():', 'return 1', 'if x:', 'else:', 'class A:',
         'for i in y:', 'lambda', ':', ';', ',', '=', '@', 'await ', 'async ', 'import os', 'pass', '\t', '\x00', '\x0c',
         '\r', 'é', '𝒳', 'Example:', 'Args:', 'Doctest:', 'text here', '<BLANKLINE>', 'Traceback (most recent call last):',
         '1', '0x', '1e', '$', '?', '`', '!', '>>> >>> ', '... ... ', 'f"{', '}"', 'b"', "r'", 'try:', 'except:', 'with x:',
         'yield', '->', '**', '...:', '>>> #', '\n\n', '\n    ', '\n>>> ', '\n... ']

VALID = [
    '>>> x = [1,\n...      2]\n>>> print(x)\n[1, 2]',
    '>>> def f(a):\n...     return (a +\n...             1)\n>>> f(1)\n2',
    ">>> s = '''\n... text\n... '''\n>>> print(s)\n<BLANKLINE>\ntext\n<BLANKLINE>",
    'Example:\n    >>> for i in range(2):\n    ...     print(i)\n    0\n    1\n\nArgs:\n    x (int): thing',
    '>>> d = {"a": (1,\n...            2)}  # xdoctest: +SKIP\n>>> print(d)\n',
    '>>> try:\n...     pass\n... except Exception:\n...     pass\n>>> @staticmethod\n... def g(): pass',
]


class CpuTimeout(BaseException):
    pass


def _alarm(*a):
    raise CpuTimeout()


@contextlib.contextmanager
def cpu_deadline(seconds):
    old = signal.signal(signal.SIGPROF, _alarm)
    signal.setitimer(signal.ITIMER_PROF, seconds)
    try:
        yield
    finally:
        signal.setitimer(signal.ITIMER_PROF, 0)
        signal.signal(signal.SIGPROF, old)


def gen_fuzz(rng):
    n = rng.randint(1, 30)
    return ''.join(rng.choice(FRAGS) for _ in range(n))


def gen_damaged(rng):
    s = rng.choice(VALID)
    for _ in range(rng.randint(1, 2)):
        op = rng.choice(['del', 'ins', 'dup', 'dedent', 'swap'])
        i = rng.randrange(len(s))
        if op == 'del':
            s = s[:i] + s[i + 1:]
        elif op == 'ins':
            s = s[:i] + rng.choice(['(', ')', '[', "'", '"', "'''", '\\', ':', '>>> ', '... ', '\n', '    ', '\t', '#']) + s[i:]
        elif op == 'dup':
            j = min(len(s), i + rng.randint(1, 8))
            s = s[:j] + s[i:j] + s[j:]
        elif op == 'dedent':
            lines = s.split('\n')
            k = rng.randrange(len(lines))
            lines[k] = lines[k][rng.randint(1, 4):]
            s = '\n'.join(lines)
        elif op == 'swap':
            lines = s.split('\n')
            if len(lines) > 1:
                k = rng.randrange(len(lines) - 1)
                lines[k], lines[k + 1] = lines[k + 1], lines[k]
                s = '\n'.join(lines)
    return s


def check_string(ctx, s, origin, case):
    from xdoctest import parser as xparser, exceptions, core
    ctx.evaluation()
    if s.count('\n') > 60:
        return None
    parse_failed = None
    nparts = 0
    # ---- entry point 1: the parser
    try:
        with cpu_deadline(CPU_BUDGET_S), warnings.catch_warnings():
            warnings.simplefilter('ignore')
            parts = xparser.DoctestParser().parse(s)
        parse_failed = False
        nparts = len(parts)
        ctx.cell('parse:returned')
    except exceptions.DoctestParseError as ex:
        parse_failed = True
        ctx.cell('parse:DoctestParseError(%s)' % type(getattr(ex, 'orig_ex', None)).__name__)
    except CpuTimeout:
        ctx.violation('cpu-deadline', 'DoctestParser.parse used more than %d s of CPU on a %d-line string: %r' % (
            CPU_BUDGET_S, s.count('\n') + 1, s), case)
        return None
    except BaseException as ex:
        ctx.violation('escape-parse', 'DoctestParser.parse raised %s (%r) instead of returning or raising '
                      'DoctestParseError: %r' % (type(ex).__name__, ex, s), case, exc=type(ex).__name__)
        return None
    ctx.event('parse_calls_observed')
    if '>>>' in s and (parse_failed or nparts >= 2):
        ctx.nontrivial(s)
    # ---- entry points 2-4: example extraction
    for style in ('auto', 'google', 'freeform'):
        try:
            with cpu_deadline(CPU_BUDGET_S), warnings.catch_warnings(record=True) as wl, \
                    contextlib.redirect_stdout(io.StringIO()):
                warnings.simplefilter('always')
                exs = list(core.parse_docstr_examples(s, callname='f', style=style))
        except CpuTimeout:
            ctx.violation('cpu-deadline', 'parse_docstr_examples(style=%s) exceeded the CPU budget: %r' % (style, s), case)
            continue
        except BaseException as ex:
            ctx.violation('escape-extract', 'core.parse_docstr_examples(style=%s) raised %s (%r): %r' % (
                style, type(ex).__name__, ex, s), case, exc=type(ex).__name__, style=style)
            continue
        ctx.event('extract_calls_observed')
        if style == 'freeform' and parse_failed:
            if exs:
                ctx.violation('example-from-broken', 'the parser rejects the docstring but freeform extraction returned '
                              '%d example(s): %r' % (len(exs), s), case)
            elif not wl:
                ctx.violation('no-warning', 'the parser rejects the docstring and extraction emitted no warning: %r' % (s,),
                              case)
            else:
                ctx.cell('extract:warned-and-empty')
        for e in exs:
            try:
                with cpu_deadline(CPU_BUDGET_S), warnings.catch_warnings():
                    warnings.simplefilter('ignore')
                    e._parse()
                ctx.cell('extract:example-parses')
            except BaseException as ex:
                ctx.violation('bad-example', 'extraction (style=%s) returned an example that does not parse (%r): %r' % (
                    style, ex, s), case)
    return parse_failed


GOOD1 = '''def good1():
    """
    >>> print("G1_{m}")
    G1_{m}
    """
'''
GOOD2 = '''def good2():
    """
    Example:
        >>> print("G2_{m}")
        G2_{m}
    """
'''


def check_module(ctx, s, idx, case):
    from xdoctest import core
    s = s.replace('\x00', '')
    rng = random.Random(idx)
    # (a raw carriage return inside the literal is a line end for the compiler, like LF)
    trip = '"""' not in s and '\\' not in s and not s.endswith('"')
    lit = ('r"""' + s + '"""') if trip and rng.random() < 0.7 else repr(s)
    good2 = GOOD2.format(m=idx)
    if rng.random() < 0.4:
        # the neighbour after the malformed docstring is decorated
        good2 = rng.choice(['@staticmethod\n', '@_deco\n', '@_deco2(\n    1)\n']) + good2
    src = GOOD1.format(m=idx) + 'def bad():\n    %s\n' % lit + good2
    if '\r' in lit:
        ctx.cell('module:raw-carriage-return')
    if rng.random() < 0.3:
        src = 'class K:\n' + '\n'.join(('    ' + ln if ln else ln) for ln in src.split('\n'))
        prefix = 'K.'
    else:
        prefix = ''
    src = 'def _deco(f):\n    return f\ndef _deco2(a):\n    return _deco\n' + src
    try:
        compile(src, 'x', 'exec')
    except Exception:
        ctx.cell('module:generator-invalid')
        return
    path = os.path.join(ctx.tmp, 'fz_%d_%d_zz.py' % (ctx.shard, idx))
    with open(path, 'w', encoding='utf8', newline='') as f:
        f.write(src)
    try:
        for style in ('auto', 'google', 'freeform'):
            ctx.evaluation()
            try:
                with cpu_deadline(CPU_BUDGET_S * 3), warnings.catch_warnings(record=True), \
                        contextlib.redirect_stdout(io.StringIO()):
                    warnings.simplefilter('always')
                    exs = list(core.parse_doctestables(path, style=style, analysis='static'))
            except CpuTimeout:
                ctx.violation('cpu-deadline', 'parse_doctestables exceeded the CPU budget', dict(case, src=src))
                continue
            except BaseException as ex:
                ctx.violation('escape-collect', 'collecting a module whose middle docstring is malformed raised %s (%r), '
                              'style=%s\n--- module ---\n%s' % (type(ex).__name__, ex, style, src), dict(case, src=src),
                              exc=type(ex).__name__)
                continue
            ctx.event('module_collections_observed')
            names = {e.callname for e in exs}
            need = {prefix + 'good2'} if style == 'google' else {prefix + 'good1', prefix + 'good2'}
            if not need <= names:
                ctx.violation('neighbour-lost', 'neighbours %r of a malformed docstring were not collected (got %r), style=%s'
                              '\n--- module ---\n%s' % (sorted(need - names), sorted(names), style, src), dict(case, src=src))
                continue
            ok = True
            for e in exs:
                if e.callname in need:
                    e.mode = 'native'
                    with contextlib.redirect_stdout(io.StringIO()):
                        r = e.run(on_error='return', verbose=0)
                    if not r['passed']:
                        ok = False
                        ctx.violation('neighbour-not-runnable', 'neighbour %s of a malformed docstring does not pass: %r'
                                      '\n--- module ---\n%s' % (e.callname, r['exc_info'], src), dict(case, src=src))
            if ok:
                ctx.cell('module:neighbours-ok:' + style)
    finally:
        try:
            os.unlink(path)
        except OSError:
            pass


def required_cells(tier):
    return ['parse:returned', 'parse:DoctestParseError(SyntaxError)', 'parse:DoctestParseError(IncompleteParseError)',
            'extract:warned-and-empty', 'extract:example-parses', 'module:neighbours-ok:auto',
            'module:neighbours-ok:google', 'module:neighbours-ok:freeform', 'origin:fuzz', 'origin:damaged',
            'module:raw-carriage-return'] + \
        ['broken-by-construction:' + k for k in BROKEN_FRAGMENTS] + ['broken-shape:single-statement',
                                                                      'broken-shape:statement-with-want'] + \
        ['broken-syntax:' + k for k in BROKEN_SYNTAX] + ['broken-syntax-layout:google-block',
                                                         'broken-syntax-layout:google-block-after-good',
                                                         'broken-syntax-layout:freeform'] + \
        ['broken-module-run:' + k for k in BROKEN_FOR_RUNNER]


def run_case(ctx, idx, with_module):
    rng = random.Random(ctx.case_seed(idx))
    if rng.random() < 0.7:
        s, origin = gen_fuzz(rng), 'fuzz'
    else:
        s, origin = gen_damaged(rng), 'damaged'
    case = {'index': idx, 'string': s, 'origin': origin, 'with_module': with_module}
    ctx.cell('origin:' + origin)
    failed = check_string(ctx, s, origin, case)
    if with_module:
        check_module(ctx, s, idx, case)
    if ctx.shard == 0 and failed:
        ctx.sample({'string': s, 'origin': origin, 'parser': 'DoctestParseError'}, limit=3)


# ---------------------------------------------------------------- broken by construction

BROKEN_FRAGMENTS = {
    # a directive comment with unbalanced parentheses
    'directive-extra-close': '# xdoctest: +SKIP)',
    'directive-unclosed': '# xdoctest: +REQUIRES(module:os',
    'directive-unclosed-doctest': '# doctest: +ELLIPSIS(',
}


def broken_shapes(fr):
    """where the fragment sits: the statement's position in its chunk, its shape, the docstring around it"""
    return {
        'single-statement': '>>> x = 1  %s' % fr,
        'own-line-then-statement': '>>> %s\n>>> x = 1' % fr,
        'second-of-two': '>>> y = 0\n>>> x = 1  %s' % fr,
        'first-of-two': '>>> x = 1  %s\n>>> y = 0' % fr,
        'statement-with-want': '>>> print(1)  %s\n1' % fr,
        'multi-line-last': '>>> x = [1,\n...      2]  %s' % fr,
        'multi-line-first': '>>> x = [1,  %s\n...      2]' % fr,
        'between-prose': 'Prose.\n\n>>> x = 1  %s\n\nmore prose' % fr,
        'google-block': 'Summary.\n\nExample:\n    >>> x = 1  %s\n' % fr,
        'own-line-only': '>>> %s' % fr,
        'after-a-want': '>>> print(0)\n0\n>>> x = 1  %s' % fr,
    }


def check_broken_by_construction(ctx):
    """docstrings whose doctest syntax is broken by construction: a warning and no example, whatever the
    parser's internal phases make of them"""
    import io
    import contextlib
    from xdoctest import core
    for fname, fr in sorted(BROKEN_FRAGMENTS.items()):
        for sname, doc in sorted(broken_shapes(fr).items()):
            for style in ('freeform', 'google', 'auto'):
                if style == 'google' and sname != 'google-block':
                    continue
                ctx.evaluation()
                ctx.nontrivial(('broken', doc, style))
                case = {'kind': 'broken-by-construction', 'fragment': fname, 'shape': sname, 'style': style, 'doc': doc}
                try:
                    with warnings.catch_warnings(record=True) as wl, contextlib.redirect_stdout(io.StringIO()):
                        warnings.simplefilter('always')
                        exs = list(core.parse_docstr_examples(doc, style=style, callname='broken'))
                except Exception as ex:
                    ctx.violation('escape-extract', 'parse_docstr_examples(style=%s) raised %r on a docstring with a malformed '
                                  'directive (%s, %s)\n--- docstring ---\n%s' % (style, ex, fname, sname, doc), case)
                    continue
                if exs or not wl:
                    ctx.violation('broken-accepted', 'a docstring whose directive comment is malformed (%s) in shape %r yields '
                                  '%d example(s) and %d warning(s) under style=%s; expected a warning and no example'
                                  '\n--- docstring ---\n%s' % (fname, sname, len(exs), len(wl), style, doc), case)
                    continue
                ctx.cell('broken-by-construction:' + fname)
                ctx.cell('broken-shape:' + sname)


BROKEN_SYNTAX = {
    # doctest syntax that cannot be completed, written with and without the blank behind the prompt
    'unclosed-bracket': ['>>> x = (', '>>> y = 1'],
    'bare-prompt-unclosed-bracket': ['>>>', '... x = ('],
    'bare-prompt-dangling-else': ['>>>', '... else:', '...     pass'],
    'bare-prompt-unclosed-string': ['>>>', "... s = '''abc"],
    'bare-prompts-only-unclosed': ['>>>', '>>>', '... f(1,'],
}


def check_broken_syntax(ctx):
    import io
    import contextlib
    from xdoctest import core
    for name, lines in sorted(BROKEN_SYNTAX.items()):
        for layout in ('google-block', 'google-block-after-good', 'freeform'):
            if layout == 'freeform':
                doc = 'Summary.\n\n' + '\n'.join(lines) + '\n'
            elif layout == 'google-block':
                doc = 'Summary.\n\nExample:\n' + '\n'.join('    ' + ln for ln in lines) + '\n'
            else:
                doc = ('Summary.\n\nExample:\n    >>> good = 1\n\nExample:\n' + '\n'.join('    ' + ln for ln in lines) + '\n')
            for style in ('freeform', 'google', 'auto'):
                if style == 'google' and layout == 'freeform':
                    continue
                ctx.evaluation()
                ctx.nontrivial(('broken-syntax', doc, style))
                case = {'kind': 'broken-syntax', 'name': name, 'layout': layout, 'style': style, 'doc': doc}
                try:
                    with warnings.catch_warnings(record=True) as wl, contextlib.redirect_stdout(io.StringIO()):
                        warnings.simplefilter('always')
                        exs = list(core.parse_docstr_examples(doc, style=style, callname='broken'))
                except Exception as ex:
                    ctx.violation('escape-extract', 'parse_docstr_examples(style=%s) raised %r on a docstring with broken doctest '
                                  'syntax (%s, %s)\n--- docstring ---\n%s' % (style, ex, name, layout, doc), case)
                    continue
                unparsed = [e for e in exs if getattr(e, '_parts', None) is None]
                bad_block = [e for e in exs if 'good = 1' not in e.docsrc]
                good_kept = [e for e in exs if 'good = 1' in e.docsrc]
                if wl and good_kept and not unparsed and not bad_block:
                    # finding F52 by mechanism: google blocks are handed out one by one, the blocks in front of the broken
                    # one have left the generator before the error is met: the docstring is collected in part
                    ctx.violation('broken-partially-collected', 'a docstring whose second google block has broken doctest syntax '
                                  '(%s) yields the doctest of its first block (and a warning) under style=%s; the property asks '
                                  'for no example for that docstring\n--- docstring ---\n%s' % (name, style, doc), case,
                                  blocks_before_the_broken_one=True)
                    ctx.cell('broken-syntax:' + name)
                    ctx.cell('broken-syntax-layout:' + layout)
                    continue
                if not wl or unparsed or bad_block or good_kept:
                    ctx.violation('broken-accepted', 'a docstring with broken doctest syntax (%s, layout %s) yields %d example(s) '
                                  '(%d for the broken block, %d of them not parsed) and %d warning(s) under style=%s; expected a '
                                  'warning and no example for it\n--- docstring ---\n%s' % (
                                      name, layout, len(exs), len(bad_block), len(unparsed), len(wl), style, doc), case)
                    continue
                ctx.cell('broken-syntax:' + name)
                ctx.cell('broken-syntax-layout:' + layout)


BROKEN_FOR_RUNNER = {
    'unclosed-bracket': ['>>> x = (', '>>> y = 1'],
    'braces-dict': ['>>> cfg = {1: 2,', '>>> y = 1'],
    'braces-format': [">>> print('{}-{}'.format(1, 2)", '>>> y = 1'],
    'braces-stray-close': ['>>> d = dict(a=1) }'],
    'percent-signs': [">>> print('100%% of %s' % (", '>>> y = 1'],
    'two-broken-docstrings': None,
}


def check_broken_module_run(ctx):
    """the other docstrings of a module with a broken docstring are still runnable: the native runner runs them, reports the
    parse-time warning and returns its summary, whatever characters the broken text holds"""
    import io
    import contextlib
    from xdoctest import runner
    for name, lines in sorted(BROKEN_FOR_RUNNER.items()):
        for layout in ('google', 'freeform'):
            for verbose in (0, 1, 3):
                def doc(body):
                    if layout == 'google':
                        return ['    \"\"\"', '    Summary.', '', '    Example:'] + ['        ' + ln for ln in body] + ['    \"\"\"']
                    return ['    \"\"\"', '    Summary.', ''] + ['    ' + ln for ln in body] + ['    \"\"\"']
                broken = [lines] if lines is not None else [BROKEN_FOR_RUNNER['braces-dict'], BROKEN_FOR_RUNNER['braces-format']]
                src = ['def good_a():'] + doc(['>>> print(1)', '1']) + ['    return 1', '']
                for k, b in enumerate(broken):
                    src += ['def broken_%d():' % k] + doc(b) + ['    return 1', '']
                src += ['def good_b():'] + doc(['>>> print(2)', '2']) + ['    return 1', '']
                modname = 'bm_%d_%d_%s_%s_%d_zz' % (ctx.seed, ctx.shard, name.replace('-', '_'), layout, verbose)
                path = os.path.join(ctx.tmp, modname + '.py')
                with open(path, 'w') as f:
                    f.write('\n'.join(src) + '\n')
                ctx.evaluation()
                ctx.nontrivial(('broken-module-run', name, layout, verbose))
                case = {'kind': 'broken-module-run', 'name': name, 'layout': layout, 'verbose': verbose}
                buf = io.StringIO()
                try:
                    with warnings.catch_warnings(), contextlib.redirect_stdout(buf), contextlib.redirect_stderr(io.StringIO()):
                        # (the runner records the warnings of the collection itself: they must reach it)
                        warnings.simplefilter('always')
                        rs = runner.doctest_module(path, 'all', argv=[''], verbose=verbose, style=layout)
                except BaseException as ex:
                    ctx.violation('module-run-raised', 'runner.doctest_module(all, verbose=%d) on a module with a broken docstring (%s, '
                                  '%s layout) raised %s: %r\n--- module ---\n%s\n--- output (tail) ---\n%s' % (
                                      verbose, name, layout, type(ex).__name__, ex, '\n'.join(src), buf.getvalue()[-600:]), case)
                    continue
                finally:
                    try:
                        os.unlink(path)
                    except OSError:
                        pass
                    sys.modules.pop(modname, None)
                if 'parse-time warnings' not in buf.getvalue() and verbose >= 1:
                    ctx.violation('no-warning-reported', 'module with a broken docstring (%s, %s layout, verbose=%d): the report of the '
                                  'run does not mention the parse-time warning\n--- output (tail) ---\n%s' % (
                                      name, layout, verbose, buf.getvalue()[-600:]), case)
                    continue
                if rs.get('n_passed') != 2 or rs.get('n_failed') != 0:
                    ctx.violation('neighbours-lost', 'module with a broken docstring (%s, %s layout): the run reports passed=%r '
                                  'failed=%r, the two sound docstrings must pass\n--- module ---\n%s' % (
                                      name, layout, rs.get('n_passed'), rs.get('n_failed'), '\n'.join(src)), case)
                    continue
                ctx.cell('broken-module-run:' + name)


def run_shard(ctx):
    warnings.simplefilter('ignore')
    if ctx.shard == 0:
        check_broken_by_construction(ctx)
    if ctx.shard == 1 % ctx.nshards:
        check_broken_syntax(ctx)
    if ctx.shard == 2 % ctx.nshards:
        check_broken_module_run(ctx)
        warnings.simplefilter('ignore')
    n = ctx.pick(20000, 400000)
    nmod = ctx.pick(1500, 20000)
    for idx in ctx.my_indices(n):
        run_case(ctx, idx, with_module=idx < nmod)


def replay(case, ctx):
    warnings.simplefilter('ignore')
    if case.get('kind') == 'broken-by-construction':
        check_broken_by_construction(ctx)
        return
    if case.get('kind') == 'broken-syntax':
        check_broken_syntax(ctx)
        return
    if case.get('kind') == 'broken-module-run':
        check_broken_module_run(ctx)
        return
    c = dict(case)
    c.pop('src', None)
    check_string(ctx, case['string'], case['origin'], c)
    if case.get('with_module'):
        check_module(ctx, case['string'], case['index'], c)


def classify(v):
    if v.get('mechanism') == 'broken-partially-collected' and v.get('blocks_before_the_broken_one'):
        return 'google-blocks-before-a-broken-one-collected'
    return None


LEVEL_TEXT = ("Exploration (fuzzing with an exception-type and CPU-time monitor): tens of thousands of grammar-generated and "
              "minimally damaged docstrings go through the four entry points; anything other than 'returns' or "
              "'DoctestParseError', a missing warning, an example from a rejected freeform docstring, a lost or failing "
              "neighbour docstring, or a blown CPU budget is reported with the string.")
LEVEL_NOTE = ("Trusted: ITIMER_PROF as the CPU clock; the fragment grammar decides what is reached.  Timeouts are CPU time, "
              "not wall clock, so machine load cannot produce a verdict.")
TECHNIQUE = "runtime monitor: grammar fuzzing with exception-type, warning and CPU-deadline (ITIMER_PROF) oracles at four entry points, neighbour-docstring survival in module files"

"""
C05 - Output matching equals the documented relation for every flag combination.

Monitors on every checker.check_output(got, want, RuntimeState(flags)) call driven by the
workload:
  (1) laws that need no model: reflexivity, exactness with all leniencies off,
      monotonicity of every leniency, non-blank difference never matches;
  (2) equality with the independent reference relation models.output_matches.
Plus an end-to-end slice: a one-statement doctest printing the got, want underneath,
flags set by a directive; the verdict must be the reference's.
"""
import itertools
import random

from xv import models
from xv.models import FLAGS, MARK, ANSI_RED, ANSI_RESET, ANSI_RED8, ANSI_RESET8

PROPERTY = 'C05'
LEVEL = 'exploration'
RULE = ("(got, want) texts are strings over the token alphabet {a, b, u, ' ', '\\n', '\\t', '...', '\"', \"'\", "
        "<BLANKLINE>, ANSI colour}; all pairs of strings up to N tokens are enumerated (exhaustive=true for that "
        "sub-space) and each pair is judged under all 32 flag settings; longer pairs are sampled by rewriting one "
        "text into the other (whitespace edits, prefixes, quotes, colours, markers, dots, one changed letter).  A "
        "pair is non-trivial when got != want and want is not empty; distinct pairs are counted by content hash "
        "(enumerated pairs are distinct by construction)")
ASSUMPTIONS = [
    "carriage returns, a <BLANKLINE> marker in the middle of a line and a literal <BLANKLINE> in the got have no "
    "documented meaning: they stay in the reflexivity law and are left out of the reference comparison and of the "
    "DONT_ACCEPT_BLANKLINE direction of monotonicity",
    "the reference model encodes one reading of the prose: prefixes = u/U/b/B (+ optional r/R) directly before a quote "
    "and not preceded by a word character; NORMALIZE_REPR = one side may drop one pair of surrounding quotes if that "
    "makes it match; 'wildcard-free' means no three consecutive dots after deleting whitespace",
    "an empty want matches everything (nothing wanted, nothing checked)",
]
TRAILING_TAILS = ['\r', '\r\n', ' \r\n', '\n\n', '  ', '\t\n', '\n\r\n']
TOKS = ['a', 'b', 'u', ' ', '\n', '\t', '...', '"', "'", MARK, ANSI_RED]
ALLBITS = list(itertools.product([0, 1], repeat=5))
NSHARDS = {'quick': 16, 'thorough': 16}
RULE += (' Every fourth table is evaluated a second time on ONE state object whose flags are switched between the calls; every second end-to-end text is printed by two statements, the first without a want.')
LENIENT = [0, 1, 2, 3]     # indices of the flags whose switching ON is a leniency


def required_cells(tier):
    cells = ['law:reflexive', 'law:exact', 'law:monotone:ELLIPSIS', 'law:monotone:NORMALIZE_WHITESPACE',
             'law:monotone:IGNORE_WHITESPACE', 'law:monotone:NORMALIZE_REPR', 'law:monotone:ACCEPT_BLANKLINE',
             'law:nonblank', 'law:trailing-whitespace', 'ref:match', 'ref:nomatch', 'e2e:match', 'e2e:nomatch', 'ellipsis-structured',
             'rewrite:many-wildcards', 'law:flags-as-they-are-now',
             'e2e:printed-by-two-statements:match', 'e2e:printed-by-two-statements:nomatch']
    cells += ['ref:flags:%s' % ''.join(map(str, b)) for b in ALLBITS]
    return cells


def strings_upto(n):
    out = []
    for k in range(n + 1):
        for t in itertools.product(TOKS, repeat=k):
            out.append(''.join(t))
    return sorted(set(out))


def make_states():
    from xdoctest import directive
    states = {}
    for bits in ALLBITS:
        rs = directive.RuntimeState()
        for f, b in zip(FLAGS, bits):
            rs[f] = bool(b)
        states[bits] = rs
    return states


def plain_text(t):
    """texts for the model-free laws: no quotes, markers, colours, carriage returns"""
    return ('"' not in t and "'" not in t and MARK not in t and '\x1b' not in t and '\x9b' not in t and '\r' not in t
            and '<' not in t)


class Judge(object):
    def __init__(self, ctx):
        from xdoctest import checker
        self.ctx = ctx
        self.check_output = checker.check_output
        self.states = make_states()
        self.n_calls = 0
        self.flagcells = dict.fromkeys(ALLBITS, 0)
        self.counts = dict.fromkeys(['law:reflexive', 'law:exact', 'law:nonblank', 'law:trailing-whitespace', 'ref:match', 'ref:nomatch'] +
                                    ['law:monotone:' + f for f in FLAGS[:4]] + ['law:monotone:ACCEPT_BLANKLINE'], 0)

    def table(self, got, want):
        out = {}
        co = self.check_output
        st = self.states
        for bits in ALLBITS:
            out[bits] = bool(co(got, want, st[bits]))
        self.n_calls += 32
        self.n_tables = getattr(self, 'n_tables', 0) + 1
        if self.n_tables % 4 == 0:
            # the verdict is a function of the texts and the flags as they are NOW: one state object whose flags are
            # switched between the calls (what a directive does to the state of a running doctest) gives the same table
            from xdoctest import directive
            one = getattr(self, 'one_state', None)
            if one is None:
                one = self.one_state = directive.RuntimeState()
            order = ALLBITS if self.n_tables % 8 == 0 else ALLBITS[::-1]
            for bits in order:
                for f, b in zip(FLAGS, bits):
                    one[f] = bool(b)
                v = bool(co(got, want, one))
                if v != out[bits]:
                    self.ctx.violation('stale-verdict', 'check_output(%r, %r) under flags %s is %s with a state object of its '
                                       'own and %s with a state object whose flags were switched to these values just before '
                                       'the call' % (got, want, dict(zip(FLAGS, bits)), out[bits], v),
                                       {'kind': 'pair', 'got': got, 'want': want}, flags=list(bits))
                    break
            else:
                self.counts['law:flags-as-they-are-now'] = self.counts.get('law:flags-as-they-are-now', 0) + 32
            self.n_calls += 32
        return out

    def reflexive(self, x):
        co = self.check_output
        for bits in ALLBITS:
            if not co(x, x, self.states[bits]):
                self.ctx.violation('law-reflexive', 'check_output(x, x) is False for x=%r flags=%s' % (x, bits),
                                   {'kind': 'pair', 'got': x, 'want': x}, flags=list(bits))
        self.n_calls += 32
        self.counts['law:reflexive'] += 32

    def pair(self, got, want, reference=True):
        ctx = self.ctx
        if not want:
            # documented: nothing wanted -> nothing checked (one probe call keeps the monitor honest)
            if not self.check_output(got, want, self.states[ALLBITS[0]]):
                ctx.violation('empty-want', 'empty want did not match got=%r' % (got,),
                              {'kind': 'pair', 'got': got, 'want': want})
            self.n_calls += 1
            return
        tab = self.table(got, want)
        case = {'kind': 'pair', 'got': got, 'want': want}
        documented = models.in_reference_domain(got, want)
        # ---- law: exactness with the four leniencies off
        if plain_text(got) and plain_text(want):
            e = (got == want) or models.exact_norm(got) == models.exact_norm(want)
            for dab in (0, 1):
                r = tab[(0, 0, 0, 0, dab)]
                self.counts['law:exact'] += 1
                if r != e:
                    ctx.violation('law-exact', 'all leniencies off: check_output(%r, %r) -> %r but texts are %s up to '
                                  'trailing blanks' % (got, want, r, 'equal' if e else 'different'), case,
                                  flags=[0, 0, 0, 0, dab], observed=r, expected=e)
            # ---- law: non-blank difference never matches a wildcard-free want
            if models.nonblank(got) != models.nonblank(want) and '...' not in models.nonblank(want):
                for bits in ALLBITS:
                    self.counts['law:nonblank'] += 1
                    if tab[bits]:
                        ctx.violation('law-nonblank', 'got %r differs from wildcard-free want %r in a non-blank '
                                      'character but matches under %s' % (got, want, bits), case, flags=list(bits))
                        break
        # ---- law: white space at the very end of either text is never compared (blanks, tabs, LF, CR, CRLF)
        if documented and not (got.endswith('\\') or want.endswith('\\')):
            tails = TRAILING_TAILS
            tail = tails[(len(got) * 7 + len(want)) % len(tails)]
            for who, g2, w2 in (('got', got + tail, want), ('want', got, want + tail)):
                if who == 'want' and (MARK in tail or not models.in_reference_domain(g2, w2.replace('\r', ''))):
                    continue
                for bits in ALLBITS[::5]:
                    self.counts['law:trailing-whitespace'] += 1
                    self.n_calls += 1
                    r2 = bool(self.check_output(g2, w2, self.states[bits]))
                    if r2 != tab[bits]:
                        ctx.violation('law-trailing-whitespace', 'appending %r to the %s changes the verdict: check_output(%r, %r) '
                                      '-> %r, with the tail -> %r (flags %s)' % (tail, who, got, want, tab[bits], r2, bits), case,
                                      flags=list(bits), tail=tail, side=who)
                        break
        # ---- law: switching a leniency on keeps a match
        if '\r' not in got and '\r' not in want:
            for bits in ALLBITS:
                if not tab[bits]:
                    continue
                for k in LENIENT:
                    if bits[k] == 0:
                        up = bits[:k] + (1,) + bits[k + 1:]
                        self.counts['law:monotone:' + FLAGS[k]] += 1
                        if not tab[up]:
                            ctx.violation('law-monotone', 'switching %s on turns a match into a mismatch: got=%r '
                                          'want=%r flags %s -> %s' % (FLAGS[k], got, want, bits, up), case,
                                          flags=list(bits), flag=FLAGS[k])
                if bits[4] == 1 and MARK not in models.nonblank(models.strip_colour(got)):
                    up = bits[:4] + (0,)
                    self.counts['law:monotone:ACCEPT_BLANKLINE'] += 1
                    if not tab[up]:
                        ctx.violation('law-monotone', 'accepting <BLANKLINE> turns a match into a mismatch: got=%r '
                                      'want=%r flags %s -> %s' % (got, want, bits, up), case,
                                      flags=list(bits), flag='ACCEPT_BLANKLINE')
        # ---- reference relation
        if reference and documented:
            for bits in ALLBITS:
                exp = models.output_matches(got, want, bits)
                self.flagcells[bits] += 1
                self.counts['ref:match' if exp else 'ref:nomatch'] += 1
                if tab[bits] != exp:
                    ctx.violation('reference', 'check_output(%r, %r, %s) -> %r, reference relation says %r' % (
                        got, want, dict(zip(FLAGS, bits)), tab[bits], exp), case,
                        flags=list(bits), observed=tab[bits], expected=exp)
                    break

    def flush(self):
        ctx = self.ctx
        for k, n in self.counts.items():
            ctx.cell(k, n)
        for bits, n in self.flagcells.items():
            ctx.cell('ref:flags:%s' % ''.join(map(str, bits)), n)
        ctx.event('check_output_calls_observed', self.n_calls)


# ---------------------------------------------------------------- random longer pairs

WORDS = ['a', 'b', 'u', 'ab', 'ba', 'x1', 'foo', 'bar', '[1,', '2]', "{'k':", 'u', 'b', '=', '0.5', 'ub', 'au', 'rb']


def random_text(rng):
    n = rng.randint(1, 8)
    parts = []
    for _ in range(n):
        r = rng.random()
        if r < 0.45:
            parts.append(rng.choice(WORDS))
        elif r < 0.6:
            q = rng.choice('"\'')
            pre = rng.choice(['', '', 'u', 'b', 'U', 'B', 'ur', 'bR', 'r'])
            parts.append(pre + q + rng.choice(WORDS) + q)
        elif r < 0.8:
            parts.append(rng.choice([' ', '  ', '\n', '\t', ' \n', '\n\n', '\n ']))
        elif r < 0.87:
            parts.append('...')
        elif r < 0.92:
            parts.append(rng.choice(['.', '..', '. ..']))
        elif r < 0.96:
            parts.append('\n' + MARK + '\n')
        else:
            if rng.random() < 0.3:
                parts.append(ANSI_RED8 + rng.choice(WORDS) + ANSI_RESET8)      # 8-bit introducer, no ESC in the text
            else:
                parts.append(ANSI_RED + rng.choice(WORDS) + ANSI_RESET)
    return ''.join(parts)


def rewrite(rng, t):
    """one of the rewrite steps the relation is documented to see through (or not)"""
    ops = ['ws', 'trail', 'prefix', 'quote', 'colour', 'marker', 'dots', 'letter', 'blankline', 'unquote',
           'prefix_glued', 'tabtrail', 'wsdelete', 'wsinsert']
    op = rng.choice(ops)
    if not t:
        return t, op
    spans = models.colour_spans(t)
    inside = set()
    for a_, b_ in spans:
        inside.update(range(a_ + 1, b_))       # insertion points strictly inside a sequence
    free = [x for x in range(len(t) + 1) if x not in inside]
    i = rng.choice(free)
    if op == 'ws':
        return t.replace(' ', rng.choice(['  ', '\n', '\t', ' \n ']), 1), op
    if op == 'trail':
        lines = t.split('\n')
        j = rng.randrange(len(lines))
        lines[j] += rng.choice([' ', '  ', '\t', ' \t'])
        return '\n'.join(lines), op
    if op == 'tabtrail':
        lines = t.split('\n')
        j = rng.randrange(len(lines))
        lines[j] += '\t'
        return '\n'.join(lines), op
    if op == 'prefix':
        for q in rng.sample(['"', "'"], 2):
            k = t.find(q)
            if k >= 0:
                return t[:k] + rng.choice('uUbB') + t[k:], op
        return t, op
    if op == 'prefix_glued':
        # a prefix-looking letter glued to a word must NOT be stripped
        for q in rng.sample(['"', "'"], 2):
            k = t.find(q)
            if k >= 0:
                return t[:k] + rng.choice('ab') + rng.choice('ub') + t[k:], op
        return t, op
    if op == 'quote':
        return rng.choice('"\'') + t + rng.choice('"\''), op
    if op == 'unquote':
        if len(t) >= 2 and t[0] in '"\'' and t[-1] == t[0]:
            return t[1:-1], op
        return t, op
    if op == 'colour':
        if rng.random() < 0.4:
            return t[:i] + ANSI_RED8 + t[i:] + ANSI_RESET8, op
        return t[:i] + ANSI_RED + t[i:] + ANSI_RESET, op
    if op == 'marker':
        return t.replace('\n\n', '\n' + MARK + '\n', 1), op
    if op == 'blankline':
        return t.replace('\n' + MARK + '\n', '\n\n', 1), op
    if op == 'dots':
        j = rng.choice(free)
        if i > j:
            i, j = j, i
        return t[:i] + rng.choice(['...', ' ... ', '...\n']) + t[j:], op
    if op == 'letter':
        k = [x for x, c in enumerate(t) if c.isalnum() and x not in inside and (x + 1) not in inside]
        if k:
            x = rng.choice(k)
            return t[:x] + rng.choice('qz7') + t[x + 1:], op
        return t + 'q', op
    if op == 'wsdelete':
        k = [x for x, c in enumerate(t) if c in ' \t\n' and x not in inside]
        if k:
            x = rng.choice(k)
            return t[:x] + t[x + 1:], op
        return t, op
    if op == 'wsinsert':
        return t[:i] + rng.choice([' ', '\n', '\t']) + t[i:], op
    return t, op


def many_wildcards_pair(rng):
    """a long got (a table, a log) and a want that replaces 5..16 stretches of it by '...'"""
    words = [rng.choice(WORDS) + str(rng.randint(0, 99)) for _ in range(rng.randint(18, 40))]
    seps = [rng.choice([' ', ' ', '\n', ', ']) for _ in words]
    got = ''.join(w + s_ for w, s_ in zip(words, seps)).rstrip()
    k = rng.randint(5, 16)
    idx = sorted(rng.sample(range(len(words)), min(k, len(words))))
    wparts = []
    for j, (w, s_) in enumerate(zip(words, seps)):
        wparts.append(('...' if j in idx else w) + s_)
    want = ''.join(wparts).rstrip()
    ops = ['many-wildcards']
    if rng.random() < 0.4:
        # one literal word changed: must not match any more (unique numbers make an accidental match unlikely; the
        # reference decides either way)
        j = rng.choice([x for x in range(len(words)) if x not in idx] or [0])
        want = want.replace(words[j], 'QQ' + words[j], 1)
        ops.append('edited')
    return got, want, ops


def random_pair(rng):
    if rng.random() < 0.06:
        return many_wildcards_pair(rng)
    a = random_text(rng)
    b = a
    ops = []
    for _ in range(rng.randint(1, 3)):
        b, op = rewrite(rng, b)
        ops.append(op)
    if rng.random() < 0.5:
        return a, b, ops      # got, want
    return b, a, ops


# ---------------------------------------------------------------- end to end

def e2e_ok_want(want):
    """want texts that survive the doctest layout unchanged: non-empty lines, nothing that the
    labeller reads as prompt, no leading/trailing blanks that the de-indentation would eat"""
    if not want or want != want.strip('\n') or '\r' in want or '\x1b' in want or '\x9b' in want:
        return False
    lines = want.split('\n')
    for ln in lines:
        if not ln.strip():
            return False
        if ln.lstrip().startswith(('>>>', '...')):
            return False
        if ln != ln.lstrip():
            return False
        if '\t' in ln:
            return False
    return True


def e2e_case(ctx, got, want, bits, split=False):
    from xdoctest import doctest_example
    flags = ', '.join(('+' if b else '-') + f for f, b in zip(FLAGS, bits))
    src = ['>>> # xdoctest: %s' % flags, '>>> print(%r)' % (got,)] + want.split('\n')
    own = None
    if split and '\n' in got:
        # the same text printed by two statements, the first without a want: the want reaches back to its output, under
        # the flags in force
        head, own = got.split('\n', 1)
        src = ['>>> # xdoctest: %s' % flags, '>>> print(%r)' % (head,), '>>> print(%r)' % (own,)] + want.split('\n')
    doc = '\n'.join(src)
    dt = doctest_example.DocTest(doc)
    summary = dt.run(on_error='return', verbose=0)
    parsed_want = None
    for p in dt._parts:
        if p.want:
            parsed_want = p.want
    exp = models.output_matches(got + '\n', want, bits)
    if own is not None:
        # (the output of the final statement alone may satisfy the want as well)
        exp = exp or (models.in_reference_domain(own + '\n', want) and models.output_matches(own + '\n', want, bits))
        ctx.cell('e2e:printed-by-two-statements:' + ('match' if exp else 'nomatch'))
    obs = bool(summary['passed'])
    ctx.evaluation()
    ctx.cell('e2e:match' if exp else 'e2e:nomatch')
    ctx.event('doctest_runs_observed')
    if parsed_want != want:
        # layout changed the want: not a case for this oracle (C13 covers layout)
        ctx.cell('e2e:want-changed-by-layout')
        return
    if obs != exp:
        et = summary['exc_info'][0].__name__ if summary['exc_info'] else None
        ctx.violation('e2e', 'doctest printing %r with want %r under %s: passed=%r (%s), reference says %r' % (
            got, want, flags, obs, et, exp) + (' (printed by two statements)' if own is not None else ''),
            {'kind': 'e2e', 'got': got, 'want': want, 'bits': list(bits), 'split': split},
            observed=obs, expected=exp)


def run_shard(ctx):
    judge = Judge(ctx)
    N = ctx.pick(2, 3)
    S = strings_upto(N)
    ctx.notes['enumerated_bound'] = {'tokens': TOKS, 'max_tokens': N, 'strings': len(S), 'pairs': len(S) * len(S),
                                     'flag_settings': 32}
    ctx.exhaustive = True
    # reflexivity incl. undocumented characters
    extra = ['a\r', 'a\rb', '\r\n', 'x' + MARK + 'y', MARK, MARK + '\n' + MARK, 'a\n' + MARK]
    for i in ctx.my_indices(len(S)):
        judge.reflexive(S[i])
    if ctx.shard == 0:
        for x in extra:
            judge.reflexive(x)
    for gi in ctx.my_indices(len(S)):
        got = S[gi]
        for want in S:
            judge.pair(got, want)
            ctx.evaluation()
        ctx.nontrivial_count(len(S) - 2)     # all wants except '' and got itself
    # quick tier: a seeded sample of 3-token pairs on top of the exhaustive 2-token space
    if ctx.quick():
        S3 = strings_upto(3)
        n3 = 16000
        for idx in ctx.my_indices(n3):
            rng = random.Random(ctx.case_seed(10 ** 7 + idx))
            got, want = rng.choice(S3), rng.choice(S3)
            judge.pair(got, want)
            ctx.evaluation()
            if got != want and want:
                ctx.nontrivial(('p', got, want))
    # wants with two and three wildcards (one token each) against all short gots: the ellipsis relation under
    # every flag set, not only in isolation (C06 judges the matcher alone)
    EW = [w for w in (''.join(t) for k in range(2, 6) for t in itertools.product(['a', 'b', ' ', '...'], repeat=k))
          if w.count('...') >= 2 and w.strip() and w.replace('...', '').strip()]
    EG = [''.join(t) for k in range(1, 5) for t in itertools.product(['a', 'b', ' '], repeat=k)]
    ctx.notes['ellipsis_structured'] = {'wants': len(EW), 'gots': len(EG)}
    for wi in ctx.my_indices(len(EW)):
        want = EW[wi]
        for got in EG:
            judge.pair(got, want)
            ctx.evaluation()
        ctx.nontrivial_count(len(EG))
        ctx.cell('ellipsis-structured')
    # random longer pairs derived by rewriting
    n_rand = ctx.pick(24000, 600000)
    for idx in ctx.my_indices(n_rand):
        rng = random.Random(ctx.case_seed(idx))
        got, want, ops = random_pair(rng)
        judge.pair(got, want)
        judge.reflexive(got) if idx % 16 == 0 else None
        ctx.evaluation()
        for op in ops:
            ctx.cell('rewrite:' + op)
        if got != want and want:
            ctx.nontrivial(('p', got, want))
        if idx < 2:
            ctx.sample({'got': got, 'want': want, 'rewrites': ops,
                        'reference': {''.join(map(str, b)): models.output_matches(got, want, b)
                                      for b in [(0, 0, 0, 0, 0), (1, 1, 0, 1, 0), (1, 1, 1, 1, 1)]}})
    # end to end
    n_e2e = ctx.pick(1600, 30000)
    S2 = [s for s in strings_upto(2)]
    for idx in ctx.my_indices(n_e2e):
        rng = random.Random(ctx.case_seed(5 * 10 ** 7 + idx))
        for _ in range(50):
            if rng.random() < 0.5:
                got, want, ops = random_pair(rng)
            else:
                got, want = rng.choice(S2), rng.choice(S2)
            if e2e_ok_want(want) and '\r' not in got and models.in_reference_domain(got + '\n', want):
                break
        else:
            continue
        bits = rng.choice(ALLBITS)
        e2e_case(ctx, got, want, bits, split=idx % 2 == 1)
        ctx.nontrivial(('e', got, want, bits))
        if idx == 0:
            ctx.sample({'e2e_doctest': ['>>> # xdoctest: <flags %s>' % (bits,), '>>> print(%r)' % got] + want.split('\n')})
    judge.flush()
    if ctx.shard == ctx.nshards - 1:
        from xv import repo_ridealong
        if repo_ridealong.run(ctx, ('C05',)):
            ctx.cell('repo-tests-ridealong')


def replay(case, ctx):
    if case['kind'] == 'e2e':
        e2e_case(ctx, case['got'], case['want'], tuple(case['bits']), split=case.get('split', False))
        return
    judge = Judge(ctx)
    judge.reflexive(case['got'])
    judge.pair(case['got'], case['want'])
    ctx.evaluation()
    judge.flush()


_DOTS_APART = None


def classify(v):
    # known finding by mechanism: deleting whitespace joins dot runs that were apart
    global _DOTS_APART
    import re
    if _DOTS_APART is None:
        _DOTS_APART = re.compile(r'\.\s+\.')
    if v.get('mechanism') == 'law-monotone' and v.get('flag') == 'IGNORE_WHITESPACE':
        want = models.strip_colour(v['case']['want'])
        flags = v.get('flags') or [0, 0, 0, 0, 0]
        if not flags[4]:
            # <BLANKLINE> lines are blanked before whitespace is deleted
            want = want.replace(models.MARK, '')
        if _DOTS_APART.search(want):
            return 'iw-dot-retokenise'
    return None


LEVEL_TEXT = ("Exploration with an exhaustive core: all pairs of token strings up to the bound x all 32 flag settings "
              "go through the real check_output; four model-free laws and an independent reference implementation of the "
              "documented relation decide every call; rewritten random pairs and an end-to-end doctest slice extend it. "
              "Held means: no disagreement on the calls observed.")
LEVEL_NOTE = ("Trusted: the reading of the documentation encoded in models.output_matches (listed under assumptions), "
              "Python's re/str primitives.  Inputs with no documented meaning (\\r, mid-line or got-side <BLANKLINE>) are only "
              "subject to the reflexivity law.")
TECHNIQUE = "runtime monitor: metamorphic laws + differential oracle (independent reference relation) over observed check_output calls, exhaustive small-scope enumeration x 32 flag sets + rewrite-derived random pairs + end-to-end doctests"

"""
C13 - Parsing partitions the docstring: each line is text, source or want, once.

Oracle (a), structural and model free: the partition contract of xv.ridealong.partition_problems on
every DoctestParser.parse call (generated docstrings, the repository's own docstrings, in the
thorough tier every prompt-bearing docstring of the installed standard library and site-packages).
Oracle (b), by construction: the generator labels every line text / source / want and the parser's
assignment must be the same.
"""
import os
import ast
import random

from xv import ridealong

PROPERTY = 'C13'
LEVEL = 'exploration'
RULE = ("docstrings are assembled from labelled building blocks: prose (also google tags, lines holding '>>>' or '...' "
        "inside), blank lines, de-indented prose directly under a want or source, statements in the shapes {one line, "
        "'>>>' continuation, '...' continuation, def + call, decorated, try/except, if/else, triple-quoted string with "
        "unprefixed body incl. a blank line, with '...' body, old style with terminating bare '...', comment, directive "
        "comment, ';' line, backslash continuation, three-line nested brackets, string holding a prompt}, wants of 1..3 "
        "lines (numbers, reprs, words, traceback header + lines, <BLANKLINE>, 'text ... more', bare '...' directly under a "
        "'>>>' line, extra-indented lines), indentation levels 0/2/4/8 changing between blocks and directly under a want.  A docstring is non-trivial "
        "when it holds all three labels; distinct by text hash.  Real docstrings (repo, stdlib, site-packages) are checked "
        "with the structural contract only")
ASSUMPTIONS = [
    "comparison is up to trailing blank lines (the re-join in parse drops them)",
    "a source/want line may have lost its chunk's indentation (blanks of one common width per part); an unprefixed "
    "string-body line may have gained '... '",
    "indentation changes across a blank line or directly under a want; prose directly under source at the same "
    "indentation (a want by definition) is not generated as a labelled case; a prompt directly under SOURCE at another "
    "indentation is generated only by the directed probes of finding F15",
    "wants do not start with '>>>' or '... '; a bare '...' is a want only directly under a '>>>' line (after a '...' "
    "continuation it terminates an old-style statement and is source)",
    "real-corpus docstrings that raise DoctestParseError are counted, not judged (C14 covers containment)",
]
NSHARDS = {'quick': 16, 'thorough': 16}
RULE += (' (The program layouts are those of C01, including two-empty-line separators and directive-looking string lines.)')

SHAPES = ['one', 'multi_ps1', 'multi_ps2', 'def', 'deco', 'try', 'ifelse', 'mlstr_bare', 'mlstr_dots', 'old',
          'comment', 'directive', 'semi', 'backslash', 'nested3', 'strprompt', 'mlstr_ps1', 'bs_comment', 'bs_string']
WANTS = ['num', 'repr', 'words', 'traceback', 'blankline', 'dots_inside', 'bare_ellipsis', 'indented', 'taglike', 'padded']
TRANSITIONS = ['text>text', 'text>src', 'src>src', 'src>want', 'src>text', 'want>want', 'want>text', 'want>src']


def required_cells(tier):
    return (['shape:' + s for s in SHAPES] + ['want:' + w for w in WANTS] + ['trans:' + t for t in TRANSITIONS] +
            ['indent:0', 'indent:2', 'indent:4', 'indent:8', 'dedent-prose', 'corpus:repo', 'tabs', 'program-layout',
             'reindent-after-want:less', 'reindent-after-want:more', 'whitespace-only-line',
             'blanks-only-continuation-line'] +
            (['corpus:stdlib'] if tier == 'thorough' else []))


def stmt_lines(rng, shape, i):
    if shape == 'one':
        return ['>>> print(%d)' % i]
    if shape == 'multi_ps1':
        return ['>>> x = [%d,' % i, '>>>      2]']
    if shape == 'multi_ps2':
        return ['>>> x = [%d,' % i, '...      2]']
    if shape == 'def':
        return ['>>> def f%d():' % i, '...     return %d' % i, '>>> f%d()' % i]
    if shape == 'deco':
        return ['>>> @staticmethod', '... def g%d():' % i, '...     return %d' % i]
    if shape == 'try':
        return ['>>> try:', '...     x = %d' % i, '... except Exception:', '...     pass']
    if shape == 'ifelse':
        return ['>>> if %d:' % i, '>>>     y = 1', '>>> else:', '>>>     y = 2']
    if shape == 'mlstr_bare':
        return [">>> s = '''", '    inner text %d' % i, '', "    '''"]
    if shape == 'mlstr_dots':
        return [">>> s = '''", '... inner %d' % i, "... '''"]
    if shape == 'mlstr_ps1':
        return ['>>> s = """', '>>> inner %d' % i, '>>> """']
    if shape == 'old':
        return ['>>> for k in range(%d):' % i, '...     print(k)', '...']
    if shape == 'comment':
        return ['>>> # a comment %d' % i]
    if shape == 'directive':
        return ['>>> # xdoctest: +SKIP', '>>> print(%d)' % i, '>>> # xdoctest: -SKIP']
    if shape == 'semi':
        return ['>>> a = %d; print(a)' % i]
    if shape == 'backslash':
        return ['>>> z = 1 + \\', '...     %d' % i]
    if shape == 'bs_comment':
        # a complete statement whose trailing comment ends in a backslash
        return ['>>> print(%d)  # i.e. C:\\data\\' % i]
    if shape == 'bs_string':
        return ['>>> p%d = "C:\\\\"  # ' % i + 'a string that ends in a backslash']
    if shape == 'nested3':
        return ['>>> d = {', "...     'k': [%d," % i, '...           2]}']
    if shape == 'strprompt':
        return ['>>> t = ">>> not a prompt %d"' % i]
    raise KeyError(shape)


def want_lines(rng, kind, i, prev_src_line):
    if kind == 'num':
        return ['%d' % i]
    if kind == 'repr':
        return ['[1, 2]', "{'a': %d}" % i][:rng.randint(1, 2)]
    if kind == 'words':
        return ['out put %d' % i, 'second line', 'third'][:rng.randint(1, 3)]
    if kind == 'traceback':
        return ['Traceback (most recent call last):', '  File "<stdin>", line 1', 'ValueError: %d' % i]
    if kind == 'blankline':
        return ['first', '<BLANKLINE>', 'last %d' % i]
    if kind == 'dots_inside':
        return ['text ... more %d' % i]
    if kind == 'bare_ellipsis':
        if prev_src_line.lstrip().startswith('>>>'):
            return ['...']
        return ['%d' % i]
    if kind == 'indented':
        return ['  indented %d' % i, '    more']
    if kind == 'padded':
        return ['ab %d    ' % i, '| a  ']
    if kind == 'taglike':
        return ['Returns: %d' % i]
    raise KeyError(kind)


PROSE = ['Some prose.', 'Args:', 'Example:', 'note: see x', 'Returns: int', 'a > b', 'x ... y', 'use >>> in the shell',
         'Doctest:', '    indented prose', 'ends with colon:']


def gen_docstring(rng, ctx=None):
    """-> list of (label, line)"""
    out = []
    levels = [0, 0, 4, 8, 2]
    cur = rng.choice(levels)
    last = cur          # indentation of the most recent source / want block
    i = 0
    prev = 'text'
    cells = []
    f15 = []
    n = rng.randint(1, 9)
    for _ in range(n):
        kind = rng.choice(['prose', 'stmt', 'stmt', 'stmt', 'stmt', 'blank', 'reindent', 'dedent_prose',
                           'reindent_after_want'] + (['reindent_after_src'] if rng.random() < 0.15 else []))
        if kind == 'prose':
            if prev in ('src', 'want'):
                out.append(('text', ''))
            for _k in range(rng.randint(1, 2)):
                out.append(('text', ' ' * rng.choice([0, cur]) + rng.choice(PROSE)))
            prev = 'text'
        elif kind == 'blank':
            # an empty line, or blanks only (more of them than the block's indentation)
            if rng.random() < 0.35:
                out.append(('text', ' ' * (last + rng.choice([1, 3, 4]))))
                cells.append('whitespace-only-line')
            else:
                out.append(('text', ''))
            prev = 'text'
        elif kind == 'dedent_prose':
            # de-indented line directly under source or want: text by definition
            if prev in ('src', 'want') and last >= 2:
                out.append(('text', ' ' * (last - 2) + 'dedented prose.'))
                prev = 'text'
                cells.append('dedent-prose')
        elif kind == 'reindent_after_src':
            # finding F15: a prompt directly under a one-line source statement at another indentation
            if prev == 'src' and out and out[-1][1].lstrip().startswith('>>> ') and not f15:
                cur = rng.choice([x for x in levels if x != cur])
                i += 1
                f15.append(len(out))
                out.append(('src', ' ' * cur + '>>> q%d = %d' % (i, i)))
                last = cur
        elif kind == 'reindent_after_want':
            # every example carries its own indentation: the next prompt may sit directly under a want
            # (no blank line) at a shallower or deeper level
            if prev == 'want':
                new = rng.choice([x for x in levels if x != cur])
                cells.append('reindent-after-want:' + ('less' if new < cur else 'more'))
                cur = new
                i += 1
                out.append(('src', ' ' * cur + '>>> r%d = %d' % (i, i)))
                last = cur
                prev = 'src'
        elif kind == 'reindent':
            if prev in ('src', 'want'):
                out.append(('text', ''))
            cur = rng.choice(levels)
            prev = 'text'
            if rng.random() < 0.5:
                out.append(('text', ' ' * cur + 'Section%d:' % i))
        else:
            i += 1
            shape = rng.choice(SHAPES)
            P = ' ' * cur
            src = stmt_lines(rng, shape, i)
            for ln in src:
                out.append(('src', P + ln if ln else ''))
            cells.append('shape:' + shape)
            cells.append('indent:%d' % cur)
            prev = 'src'
            last = cur
            if rng.random() < 0.6 and shape not in ('comment',):
                wk = rng.choice(WANTS)
                wl = want_lines(rng, wk, i, src[-1])
                for w in wl:
                    out.append(('want', P + w))
                if not (wk == 'bare_ellipsis' and wl != ['...']):
                    cells.append('want:' + wk)
                prev = 'want'
    return out, cells, f15


def parser_labels(parts):
    labs = []
    for p in parts:
        if isinstance(p, str):
            labs.extend(('text', ln) for ln in p.split('\n'))
        else:
            labs.extend(('src', ln) for ln in (p.orig_lines or []))
            labs.extend(('want', ln) for ln in (p.want_lines or []))
    while labs and labs[-1][1].strip() == '':
        labs.pop()
    return labs


def check_generated(ctx, index, seed):
    from xdoctest import parser as xparser
    rng = random.Random(seed)
    labeled, cells, f15 = gen_docstring(rng)
    while labeled and labeled[-1][1].strip() == '':
        labeled.pop()
    if not labeled:
        return
    doc = '\n'.join(ln for _, ln in labeled)
    if rng.random() < 0.2:
        # indentation written with tabs: every run of 8 leading blanks becomes a tab
        def tab(ln):
            k = len(ln) - len(ln.lstrip(' '))
            return '\t' * (k // 8) + ' ' * (k % 8) + ln[k:]
        tdoc = '\n'.join(tab(ln) for ln in doc.split('\n'))
        if tdoc != doc:
            doc = tdoc
            cells.append('tabs')
    case = {'index': index, 'case_seed': seed, 'doc': doc, 'reindent_after_source': f15}
    ctx.evaluation()
    kinds = set(lab for lab, _ in labeled)
    if kinds == {'text', 'src', 'want'}:
        ctx.nontrivial(doc)
    try:
        parts = xparser.DoctestParser().parse(doc)
    except Exception as ex:
        ctx.violation('parse-raised', 'well formed docstring does not parse: %r (%r)\n--- docstring ---\n%s' % (
            ex, getattr(ex, 'orig_ex', None), doc), case)
        return
    ctx.event('generated_docstrings_parsed')
    # (a) structural contract - evaluated directly (it also rides along on the call above)
    probs = ridealong.partition_problems(doc, parts)
    for mech, msg in probs:
        ctx.violation('partition-' + mech, msg + '\n--- docstring ---\n' + doc, case)
    if probs:
        return
    # (b) labels by construction
    got = [lab for lab, _ in parser_labels(parts)]
    exp = [lab for lab, _ in labeled]
    if got != exp:
        k = next((j for j, (a, b) in enumerate(zip(got, exp)) if a != b), min(len(got), len(exp)))
        line = labeled[k][1] if k < len(labeled) else '<past the end>'
        ctx.violation('label', 'line %d %r is %s by construction but the parser assigned it to %s\n--- docstring ---\n%s' % (
            k, line, exp[k] if k < len(exp) else None, got[k] if k < len(got) else None, doc), case,
            expected=exp, observed=got, first_difference=k)
        return
    ctx.event('label_sequences_compared')
    if f15:
        ctx.cell('reindent-after-source-labelled-source')
    for c in cells:
        ctx.cell(c)
    prev = None
    for lab in exp:
        if prev is not None:
            ctx.cell('trans:%s>%s' % (prev, lab))
        prev = lab
    if ctx.shard == 0:
        ctx.sample({'docstring': doc, 'labels_by_construction': exp,
                    'parts': [p if isinstance(p, str) else {'line_offset': p.line_offset, 'orig_lines': p.orig_lines,
                                                            'want_lines': p.want_lines} for p in parts]}, limit=2)


def check_program_layout(ctx, index, seed):
    """docstrings laid out by the C01 program generator (statement grammar x prompt styles x wants/prose/tabs/google)"""
    from xdoctest import parser as xparser
    from xv import gen_programs as gp
    rng = random.Random(seed)
    stmts = gp.ProgramGen(rng).program(1, 8)
    ref = gp.run_reference(stmts)
    layout = gp.Layout.random(rng)
    doc, info = layout.render(stmts, ref.outs)
    if 'mixed-continuation-then-want' in info['features']:
        ctx.cell('skipped:known-C01-finding')
        return
    case = {'index': index, 'case_seed': seed, 'doc': doc, 'origin': 'program-layout'}
    ctx.evaluation()
    try:
        parts = xparser.DoctestParser().parse(doc)
    except Exception as ex:
        ctx.violation('parse-raised', 'well formed docstring does not parse: %r (%r)\n--- docstring ---\n%s' % (
            ex, getattr(ex, 'orig_ex', None), doc), case)
        return
    ctx.event('program_layouts_parsed')
    probs = ridealong.partition_problems(doc, parts)
    for mech, msg in probs:
        ctx.violation('partition-' + mech, msg + '\n--- docstring ---\n' + doc, case)
    if probs:
        return
    exp = ['text'] * info['head'] + [lab for lab, _ in info['labels']]
    # blank separator lines and prose are text; drop trailing blanks like the parser's re-join does
    lines = doc.split('\n')
    while exp and lines and lines[len(exp) - 1].strip() == '' and exp[-1] == 'text':
        exp.pop()
    got = [lab for lab, _ in parser_labels(parts)]
    if got != exp:
        k = next((j for j, (a, b) in enumerate(zip(got, exp)) if a != b), min(len(got), len(exp)))
        ctx.violation('label', 'line %d %r is %s by construction but the parser assigned it to %s\n--- docstring ---\n%s' % (
            k, lines[k] if k < len(lines) else None, exp[k] if k < len(exp) else None, got[k] if k < len(got) else None, doc),
            case, expected=exp, observed=got)
        return
    ctx.event('label_sequences_compared')
    ctx.cell('program-layout')
    if 'blanks-only-continuation-line' in info['features']:
        ctx.cell('blanks-only-continuation-line')
    if len(set(exp)) == 3:
        ctx.nontrivial(doc)


# ------------------------------------------------------------------ real corpora (contract (a) only)

def iter_docstrings(paths):
    for f in paths:
        try:
            tree = ast.parse(open(f, encoding='utf8', errors='replace').read())
        except Exception:
            continue
        for node in ast.walk(tree):
            if isinstance(node, (ast.Module, ast.FunctionDef, ast.AsyncFunctionDef, ast.ClassDef)):
                try:
                    d = ast.get_docstring(node, clean=False)
                except Exception:
                    d = None
                if d and '>>>' in d:
                    yield f, getattr(node, 'name', '<module>'), d


def py_files(root):
    out = []
    for dp, dn, fn in os.walk(root):
        dn[:] = [d for d in dn if d not in ('__pycache__', 'test', 'tests', 'idlelib')]
        for f in fn:
            if f.endswith('.py'):
                out.append(os.path.join(dp, f))
    return sorted(out)


def check_corpus(ctx, name, files):
    from xdoctest import parser as xparser, exceptions
    import warnings
    for k, (f, node, doc) in enumerate(iter_docstrings(files)):
        ctx.evaluation()
        try:
            with warnings.catch_warnings():
                warnings.simplefilter('ignore')
                parts = xparser.DoctestParser().parse(doc)
        except exceptions.DoctestParseError:
            ctx.cell('corpus-parse-error:' + name)
            continue
        except Exception as ex:
            ctx.violation('parse-raised', 'parse raised %r (not DoctestParseError) on %s::%s' % (ex, f, node),
                          {'corpus': name, 'file': f, 'node': node, 'doc': doc})
            continue
        ctx.cell('corpus:' + name)
        ctx.nontrivial(doc)
        for mech, msg in ridealong.partition_problems(doc, parts):
            ctx.violation('partition-' + mech, '%s::%s: %s\n--- docstring ---\n%s' % (f, node, msg, doc),
                          {'corpus': name, 'file': f, 'node': node, 'doc': doc})


def run_shard(ctx):
    import warnings
    import sysconfig
    warnings.simplefilter('ignore')
    ridealong.install(['parse'])
    n = ctx.pick(8000, 150000)
    for idx in ctx.my_indices(n):
        check_generated(ctx, idx, ctx.case_seed(idx))
    # the C01 program generator's layouts: labels are known by construction there too
    n2 = ctx.pick(2000, 30000)
    for idx in ctx.my_indices(n2):
        check_program_layout(ctx, idx, ctx.case_seed(10 ** 7 + idx))
    repo_files = py_files(os.path.join(os.environ.get('XV_REPO', '/repo'), 'src'))
    check_corpus(ctx, 'repo', repo_files[ctx.shard::ctx.nshards])
    if not ctx.quick():
        std = py_files(sysconfig.get_paths()['stdlib'])
        site = py_files(sysconfig.get_paths()['purelib'])
        files = std + site
        check_corpus(ctx, 'stdlib', files[ctx.shard::ctx.nshards])
    ridealong.drain(ctx, props=('C13',))
    if ctx.shard == ctx.nshards - 1:
        from xv import repo_ridealong
        if repo_ridealong.run(ctx, ('C13',)):
            ctx.cell('repo-tests-ridealong')


def replay(case, ctx):
    import warnings
    warnings.simplefilter('ignore')
    if 'corpus' in case:
        from xdoctest import parser as xparser
        ctx.evaluation()
        parts = xparser.DoctestParser().parse(case['doc'])
        for mech, msg in ridealong.partition_problems(case['doc'], parts):
            ctx.violation('partition-' + mech, msg, case)
    elif case.get('ridealong'):
        raise SystemExit('ride-along witnesses carry their docstring in details')
    elif case.get('origin') == 'program-layout':
        check_program_layout(ctx, case['index'], case['case_seed'])
    else:
        check_generated(ctx, case['index'], case['case_seed'])


def classify(v):
    # F15 by mechanism: the first line the parser labels differently is a prompt that sits directly under a source
    # line at another indentation
    if v.get('mechanism') == 'label' and v.get('first_difference') in (v['case'].get('reindent_after_source') or ()):
        return 'prompt-reindented-after-source'
    return None


LEVEL_TEXT = ("Exploration: thousands of docstrings assembled from labelled blocks are parsed by the real parser; a model-free "
              "partition contract (every line once, in order, offsets right) and the by-construction labels decide; the same "
              "contract runs over the repository's docstrings (quick) and every prompt-bearing docstring of the installed "
              "standard library and site-packages (thorough, about 1.4 k real docstrings).")
LEVEL_NOTE = ("Trusted: the generator's labelling rules (stated under assumptions) as the reading of the documented syntax; "
              "str.expandtabs/splitlines for the expected line list.")
TECHNIQUE = "runtime monitor: partition contract on every DoctestParser.parse call + by-construction line labels from a block generator, real-docstring corpus ride-along"

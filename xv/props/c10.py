"""
C10 - Native runner tallies and exit status agree with the per-doctest outcomes.

Modules of 1..8 doctests with by-construction outcomes, in random order.  Every doctest body appends
its unique id to a marker file (M-G; exactly-once across processes) and to the module's RUNLOG.
Observed: run_summary of runner.doctest_module for {all, list, <name>}, the marker file, and for a
sample the `python -m xdoctest` process (exit status, '=== n failed, n passed ===' line, list output).
"""
import io
import os
import re
import sys
import random
import warnings
import contextlib
import subprocess
import collections

from xv import gen_modules as gm

PROPERTY = 'C10'
LEVEL = 'exploration'
RULE = ("modules of 1..8 doctests (functions and methods) whose outcomes are drawn from {pass, pass without want, pass with "
        "multi-line statement, fail by output, fail by exception, fail at the second want, all skipped by +SKIP, all skipped "
        "by unmet REQUIRES, partly skipped, expected exception, force-disabled (DISABLE_DOCTEST / SCRIPT), comment only} in "
        "random order; docstrings in google or freeform layout collected under style google / freeform / auto; verbosity "
        "0..3; commands all, list and a named doctest (also a force-disabled one); a sample runs through the CLI.  "
        "Non-trivial = at least three doctests of two different outcomes; distinct by source hash")
ASSUMPTIONS = [
    "the marker file, not the module's RUNLOG, is the authority for exactly-once: a module whose doctests are all "
    "skipped or disabled is never imported",
    "a doctest whose body is only comments counts as skipped",
]
NSHARDS = {'quick': 16, 'thorough': 16}
RULE += (' Plus: a left-out block (Ignore: / DisableDoctest:) of several parts in one module out of four, force-disabling comments in other cases, a remark + empty prompt line + everything skipped; probe zero-arg (six CLI runs on a module with zero-argument functions).')


def required_cells(tier):
    return (['outcome:' + k for k in gm.OUTCOMES] + ['cmd:all', 'cmd:list', 'cmd:named', 'cmd:named-disabled',
            'style:google', 'style:freeform', 'style:auto', 'verbose:0', 'verbose:1', 'verbose:2', 'verbose:3',
            'cli:exit0', 'cli:exit1', 'cli:list', 'mix:only-skipped', 'mix:last-fails', 'mix:disabled+failing',
            'printed-failed-list:empty', 'printed-failed-list:one', 'printed-failed-list:several',
            'module-import-fails', 'cmd:named-one-of-several-in-a-docstring:0',
            'cmd:named-one-of-several-in-a-docstring:1', 'module-holds-a-left-out-block'] + ['zero-arg:' + ' '.join(r[0]) for r in ZERO_ARG_RUNS])


def read_marks(path):
    if not os.path.exists(path):
        return []
    with open(path) as f:
        return [ln.strip() for ln in f if ln.strip()]


SUMMARY_RE = re.compile(r'^=== (.*) in [0-9.]+ seconds ===\s*$', re.M)


def parse_summary_line(text):
    text = re.sub(r'\x1b\[[0-9;]*m', '', text)
    m = None
    for m in SUMMARY_RE.finditer(text):
        pass
    if m is None:
        return None
    out = {}
    for part in m.group(1).split(','):
        part = part.strip()
        if part:
            n, t = part.split(' ', 1)
            out[t] = int(n)
    return out


def printed_failed_list(text):
    """the doctests named in the '=== Failed tests ===' section of a printed report, or None when the report has no
    final summary line (nothing was printed at this verbosity)"""
    lines = text.splitlines()
    if not any(ln.startswith('=== ') and ' in ' in ln and ln.rstrip().endswith('seconds ===') for ln in lines):
        return None
    out = []
    inside = False
    for ln in lines:
        if ln.strip() == '=== Failed tests ===':
            inside = True
            continue
        if inside:
            if ln.startswith('==='):
                break
            parts = ln.split()
            if ln.startswith('python -m xdoctest ') and len(parts) >= 5:
                out.append(parts[-1])
    return sorted(out)


def check_printed_failed(ctx, bad, text, expected, what):
    got = printed_failed_list(text)
    if got is None:
        return True
    ctx.event('printed_failed_lists_checked')
    if got != sorted(expected):
        bad('printed-failed-list', "%s: the printed '=== Failed tests ===' section names %r, the doctests that failed are %r" % (
            what, got, sorted(expected)))
        return False
    ctx.cell('printed-failed-list:%s' % ('empty' if not expected else 'one' if len(expected) == 1 else 'several'))
    return True


def check_module(ctx, idx, seed, cli=False):
    from xdoctest import runner
    rng = random.Random(seed)
    layout = rng.choice(['google', 'freeform'])
    style = rng.choice([layout, 'auto'])
    # directed mixes, so that the particular tallies do not depend on luck: every fourth module has no failing
    # doctest, every sixteenth only skipped ones
    kinds = None
    if idx % 16 == 1:
        kinds = [k for k, v in gm.OUTCOMES.items() if v[1] == 'skipped']
    elif idx % 4 == 0:
        kinds = [k for k, v in gm.OUTCOMES.items() if v[1] != 'failed']
    om = gm.outcome_module(rng, '%dx%d' % (ctx.seed, idx), layout=layout, kinds=kinds)
    if idx % 8 == 3:
        # the module parses but cannot be imported: every doctest with something to run fails at the import, those
        # with nothing to run (comments only, everything skipped) are still skipped, and no doctest code executes
        om.src += '\nimport xv_no_such_module_%d_zz\n' % idx
        for t in om.tests:
            if t['outcome'] in ('passed', 'failed'):
                t['outcome'] = 'failed'
            if t['outcome'] == 'disabled':
                t['body_fails_at_import'] = True        # (run by name, a force-disabled doctest has the outcome of its body)
            t['marks'] = False
        ctx.cell('module-import-fails')
    modname = 'tm_%d_%d_%d_zz' % (ctx.seed, ctx.shard, idx)
    path = os.path.join(ctx.tmp, modname + '.py')
    markfile = os.path.join(ctx.tmp, modname + '.marks')
    with open(path, 'w') as f:
        f.write(om.src)
    os.environ['XV_MARKFILE'] = markfile
    verbose = rng.choice([0, 1, 2, 3])
    case = {'index': idx, 'case_seed': seed, 'cli': cli}
    enabled = om.enabled()
    cnt = om.counts()
    if len(om.tests) >= 3 and len(set(t['outcome'] for t in om.tests)) >= 2:
        ctx.nontrivial(om.src)

    def bad(mech, msg, **kw):
        ctx.violation(mech, '%s\n  style=%s verbose=%d by construction: %s\n--- module ---\n%s' % (
            msg, style, verbose, [(t['ident'], t['kind']) for t in om.tests], om.src), case, **kw)

    ok = True
    try:
        # ------------------------------------------------------------ all
        ctx.evaluation()
        if os.path.exists(markfile):
            os.unlink(markfile)
        buf = io.StringIO()
        try:
            with contextlib.redirect_stdout(buf), contextlib.redirect_stderr(io.StringIO()):
                rs = runner.doctest_module(path, 'all', argv=[''], verbose=verbose, style=style)
        except BaseException as ex:
            bad('run-raised', 'doctest_module(all) raised %r' % (ex,))
            return
        ctx.event('module_runs')
        marks = read_marks(markfile)
        ctx.event('marker_lines_read', len(marks))
        want_marks = [t['id'] for t in enabled if t['marks']]
        if marks != want_marks:
            c = collections.Counter(marks)
            twice = sorted(k for k, v in c.items() if v > 1)
            never = sorted(set(want_marks) - set(marks))
            intr = sorted(set(marks) - set(want_marks))
            bad('exactly-once', "command 'all': executed ids %r, expected %r (ran twice: %r, never ran: %r, ran although "
                "force-disabled or skipped: %r)" % (marks, want_marks, twice, never, intr))
            ok = False
        if rs.get('n_total') != len(enabled):
            bad('tally', 'n_total=%r but %d doctests are enabled' % (rs.get('n_total'), len(enabled)))
            ok = False
        elif rs['n_passed'] + rs['n_failed'] + rs['n_skipped'] != rs['n_total']:
            bad('tally', 'passed %d + failed %d + skipped %d != total %d' % (
                rs['n_passed'], rs['n_failed'], rs['n_skipped'], rs['n_total']))
            ok = False
        elif (rs['n_passed'], rs['n_failed'], rs['n_skipped']) != (cnt['passed'], cnt['failed'], cnt['skipped']):
            bad('tally', 'run summary passed/failed/skipped = %d/%d/%d, by construction %d/%d/%d' % (
                rs['n_passed'], rs['n_failed'], rs['n_skipped'], cnt['passed'], cnt['failed'], cnt['skipped']))
            ok = False
        else:
            names = sorted(x.unique_callname for x in rs['failed'])
            expn = sorted(t['ident'] for t in enabled if t['outcome'] == 'failed')
            if names != expn:
                bad('failed-list', 'failed list %r, expected %r' % (names, expn))
                ok = False
        if ok and verbose >= 1 and len(enabled) > 0:
            sl = parse_summary_line(buf.getvalue())
            exp_sl = {k: v for k, v in (('failed', cnt['failed']), ('passed', cnt['passed']), ('skipped', cnt['skipped'])) if v}
            got_sl = {k: v for k, v in (sl or {}).items() if k != 'warnings'}
            if sl is None or got_sl != exp_sl:
                bad('summary-line', 'final summary line says %r, expected %r' % (sl, exp_sl))
                ok = False
            elif not check_printed_failed(ctx, bad, buf.getvalue(), [t['ident'] for t in enabled if t['outcome'] == 'failed'],
                                          "command 'all' (verbose=%d, %d doctests run)" % (verbose, len(enabled))):
                ok = False
        if ok:
            ctx.cell('cmd:all')
        # ------------------------------------------------------------ named
        ctx.evaluation()
        t = rng.choice(om.tests)
        multi = [x for x in om.tests if sum(1 for y in om.tests if y['callname'] == x['callname']) > 1]
        if multi and rng.random() < 0.7:
            t = rng.choice(multi)
        elif any(x['outcome'] == 'disabled' for x in om.tests) and rng.random() < 0.5:
            t = rng.choice([x for x in om.tests if x['outcome'] == 'disabled'])
        if os.path.exists(markfile):
            os.unlink(markfile)
        nbuf = io.StringIO()
        nverb = rng.choice([0, 1, 3])
        try:
            with contextlib.redirect_stdout(nbuf), contextlib.redirect_stderr(io.StringIO()):
                rs2 = runner.doctest_module(path, t['ident'], argv=[''], verbose=nverb, style=style)
        except BaseException as ex:
            bad('run-raised', 'doctest_module(%s) raised %r' % (t['ident'], ex))
            return
        marks2 = read_marks(markfile)
        exp2 = [t['id']] if t['marks'] else []
        # a force-disabled doctest run by name has the outcome of its body
        named_fails = t['outcome'] == 'failed' or (t['kind'] == 'disabled') or t.get('body_fails_at_import', False)
        if rs2.get('n_total') != 1 or marks2 != exp2:
            bad('named-run', "naming %s (%s) ran %r doctest(s) and executed ids %r, expected exactly that one (%r)" % (
                t['ident'], t['kind'], rs2.get('n_total'), marks2, exp2))
            ok = False
        elif not check_printed_failed(
                ctx, bad, nbuf.getvalue(), [t['ident']] if named_fails else [],
                'naming %s (%s), verbose=%d' % (t['ident'], t['kind'], nverb)):
            ok = False
        else:
            ctx.cell('cmd:named-disabled' if t['outcome'] == 'disabled' else 'cmd:named')
            if sum(1 for x in om.tests if x['callname'] == t['callname']) > 1:
                ctx.cell('cmd:named-one-of-several-in-a-docstring:%s' % t['ident'].split(':')[-1])
        # ------------------------------------------------------------ list
        ctx.evaluation()
        b = io.StringIO()
        with contextlib.redirect_stdout(b), contextlib.redirect_stderr(io.StringIO()):
            runner.doctest_module(path, 'list', argv=[''], verbose=1, style=style)
        names = sorted(ln.split()[-1] for ln in b.getvalue().splitlines()
                       if ln.strip().startswith('python -m xdoctest ') and ':' in ln.split()[-1])
        if names != sorted(x['ident'] for x in om.tests):
            bad('list', "'list' names %r, the module holds %r" % (names, sorted(x['ident'] for x in om.tests)))
            ok = False
        else:
            ctx.cell('cmd:list')
        # ------------------------------------------------------------ CLI
        if cli:
            ctx.evaluation()
            if os.path.exists(markfile):
                os.unlink(markfile)
            p = subprocess.run([sys.executable, '-m', 'xdoctest', path, 'all', '--style=' + style, '--verbose=%d' % max(verbose, 1)],
                               cwd=ctx.tmp, stdout=subprocess.PIPE, stderr=subprocess.STDOUT, text=True, timeout=180,
                               env=dict(os.environ, XV_MARKFILE=markfile))
            ctx.event('cli_runs')
            marks3 = read_marks(markfile)
            sl = parse_summary_line(p.stdout)
            exp_sl = {k: v for k, v in (('failed', cnt['failed']), ('passed', cnt['passed']), ('skipped', cnt['skipped'])) if v}
            got_sl = {k: v for k, v in (sl or {}).items() if k != 'warnings'}
            if (p.returncode != 0) != (cnt['failed'] > 0) or p.returncode not in (0, 1):
                bad('exit-status', 'CLI exits %d with %d failing doctest(s)\n%s' % (p.returncode, cnt['failed'], p.stdout[-600:]))
                ok = False
            elif marks3 != want_marks:
                bad('exactly-once', 'CLI executed ids %r, expected %r' % (marks3, want_marks))
                ok = False
            elif enabled and got_sl != exp_sl:
                bad('summary-line', 'CLI summary line says %r, expected %r\n%s' % (sl, exp_sl, p.stdout[-400:]))
                ok = False
            elif not check_printed_failed(ctx, bad, p.stdout, [x['ident'] for x in enabled if x['outcome'] == 'failed'],
                                          "CLI 'all' (%d doctests run)" % len(enabled)):
                ok = False
            else:
                ctx.cell('cli:exit%d' % p.returncode)
            p2 = subprocess.run([sys.executable, '-m', 'xdoctest', path, 'list', '--style=' + style], cwd=ctx.tmp,
                                stdout=subprocess.PIPE, stderr=subprocess.STDOUT, text=True, timeout=180)
            names = sorted(ln.split()[-1] for ln in p2.stdout.splitlines()
                           if ln.strip().startswith('python -m xdoctest ') and ':' in ln.split()[-1])
            if names != sorted(x['ident'] for x in om.tests) or p2.returncode != 0:
                bad('list', "CLI 'list' names %r (exit %d), the module holds %r" % (
                    names, p2.returncode, sorted(x['ident'] for x in om.tests)))
                ok = False
            else:
                ctx.cell('cli:list')
        if ok:
            for t in om.tests:
                ctx.cell('outcome:' + t['kind'])
            ctx.cell('style:' + style)
            ctx.cell('verbose:%d' % verbose)
            if om.left_out_block:
                ctx.cell('module-holds-a-left-out-block')
            if enabled and all(t['outcome'] == 'skipped' for t in enabled):
                ctx.cell('mix:only-skipped')
            if enabled and enabled[-1]['outcome'] == 'failed':
                ctx.cell('mix:last-fails')
            if any(t['outcome'] == 'disabled' for t in om.tests) and cnt['failed']:
                ctx.cell('mix:disabled+failing')
            if ctx.shard == 0:
                ctx.sample({'module_source': om.src[:1500], 'by_construction': [(t['ident'], t['kind']) for t in om.tests],
                            'run_summary': {k: v for k, v in rs.items() if k.startswith('n_')},
                            'marker_file': marks}, limit=2)
    finally:
        for pth in (path, markfile):
            try:
                os.unlink(pth)
            except OSError:
                pass
        sys.modules.pop(modname, None)


ZERO_ARG_MODULE = '''import os
def _mark(x):
    with open(os.environ['XV_MARKFILE'], 'a') as f:
        f.write(x + '\\n')
def zpass():
    _mark('zp')
def zfail():
    _mark('zf')
    raise ValueError('v')
def documented():
    """
    >>> _mark('doc')
    """
'''
# (arguments after the module path, exit status, executed ids, final summary, names in the failed list)
ZERO_ARG_RUNS = [
    (['zpass'], 0, ['zp'], {'passed': 1}, []),
    (['zfail'], 1, ['zf'], {'failed': 1}, ['zfail:0']),
    (['zpass', '--options=+SKIP'], 0, [], {'skipped': 1}, []),
    (['zfail', '--options=+SKIP'], 0, [], {'skipped': 1}, []),
    (['documented'], 0, ['doc'], {'passed': 1}, []),
    (['all'], 0, ['doc'], {'passed': 1}, []),
]


def probe_zero_arg(ctx):
    """naming a function without a doctest that takes no arguments runs a stand-in doctest that calls it: it is run,
    tallied, listed among the failed and reflected in the exit status like any other doctest of the native runner"""
    modname = 'tz_%d_%d_zz' % (ctx.seed, ctx.shard)
    path = os.path.join(ctx.tmp, modname + '.py')
    markfile = os.path.join(ctx.tmp, modname + '.marks')
    with open(path, 'w') as f:
        f.write(ZERO_ARG_MODULE)
    try:
        for args, exp_rc, exp_marks, exp_sl, exp_failed in ZERO_ARG_RUNS:
            ctx.evaluation()
            if os.path.exists(markfile):
                os.unlink(markfile)
            p = subprocess.run([sys.executable, '-m', 'xdoctest', path] + args, cwd=ctx.tmp, stdout=subprocess.PIPE,
                               stderr=subprocess.STDOUT, text=True, timeout=180, env=dict(os.environ, XV_MARKFILE=markfile))
            ctx.event('cli_runs')
            marks = read_marks(markfile)
            sl = parse_summary_line(p.stdout)
            got_sl = {k: v for k, v in (sl or {}).items() if k != 'warnings'}
            failed = printed_failed_list(p.stdout)
            if p.returncode != exp_rc or marks != exp_marks or got_sl != exp_sl or (failed or []) != exp_failed:
                ctx.violation('zero-arg-run', "'python -m xdoctest mod %s' on a module with zero-argument functions: exit %d, "
                              'executed ids %r, summary %r, failed list %r; expected exit %d, ids %r, summary %r, failed list %r'
                              '\n--- output (tail) ---\n%s' % (' '.join(args), p.returncode, marks, got_sl, failed, exp_rc,
                                                              exp_marks, exp_sl, exp_failed, p.stdout[-800:]),
                              {'probe': 'zero-arg', 'args': args})
            else:
                ctx.cell('zero-arg:' + ' '.join(args))
                ctx.nontrivial_count(1)
    finally:
        for pth in (path, markfile):
            try:
                os.unlink(pth)
            except OSError:
                pass


def run_shard(ctx):
    warnings.simplefilter('ignore')
    n = ctx.pick(480, 6000)
    ncli = ctx.pick(32, 200)
    for idx in ctx.my_indices(n):
        check_module(ctx, idx, ctx.case_seed(idx), cli=idx < ncli)
    if ctx.shard == 5 % ctx.nshards:
        probe_zero_arg(ctx)


def replay(case, ctx):
    warnings.simplefilter('ignore')
    if case.get('probe') == 'zero-arg':
        probe_zero_arg(ctx)
        return
    check_module(ctx, case['index'], case['case_seed'], cli=case.get('cli', False))


def classify(v):
    return None


LEVEL_TEXT = ("Exploration: generated modules with by-construction outcomes are run through the native runner in-process "
              "(all / list / named) and, for a sample, as a subprocess; the tallies, the failed list, the final summary line, "
              "the exit status and an exactly-once marker file written by the doctest bodies themselves are compared with the "
              "construction.  Particular mixes (only skipped, last one failing, disabled + failing) must be observed.")
LEVEL_NOTE = ("Trusted: the by-construction outcome of each doctest body (each is a three-line program) and append-mode file "
              "writes as the cross-process exactly-once log.")
TECHNIQUE = "runtime monitor: exactly-once marker file + run_summary / CLI observers vs by-construction outcomes (conservation: passed+failed+skipped=total=#enabled)"

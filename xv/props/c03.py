"""
C03 - Exceptions are never swallowed; only a matching expected traceback passes.

Fault enumeration over the decision table
  exception kind x message x position x want form x (IGNORE_EXCEPTION_DETAIL, ELLIPSIS, IGNORE_WANT)
each cell embedded in a context of neighbouring statements.  The true 'Type: message' line comes
from a reference run (traceback.format_exception_only), so exact wants are exact by construction.
Monitors: run summary (verdict + exception type), exception propagated by on_error='raise',
event log T (did the statements after the raising one run).
"""
import sys
import types
import random
import itertools
import traceback

from xv import gen_programs as gp
from xv import harness

PROPERTY = 'C03'
LEVEL = 'fault_enumeration'
RULE = ("every cell of exception kind {builtin raised directly, builtin raised from called code, class defined in the "
        "doctest, the same raised from called code, dotted stdlib class, class of a module under test (dotted), raised "
        "inside a coroutine, assert} x message {empty, plain, with colons, multi-line, containing '...'} x position {first, "
        "middle, last} x want form {none, exact traceback, with stack lines, wrong message, wrong type, non-traceback text, "
        "ellipsis, traceback want on non-raising code} x 8 flag settings is generated once per context (quick: 1 context, "
        "thorough: 10), alternating on_error='return'/'raise'.  All cells are distinct and non-trivial by construction; "
        "distinct cases are counted by docstring+flags hash")
ASSUMPTIONS = [
    "under IGNORE_WANT only the cells 'no want' and 'non-traceback want' are asserted (the exception must surface); what a "
    "traceback-shaped want means when wants are ignored is not documented, there only the consistency between verdict and "
    "event log is asserted",
    "the ellipsis want of a message-less exception puts the dots inside the class name (Val...or); a final line ending in a "
    "dot after a colon-less name is finding F10 and is probed by fixed cases",
    "a final want line that starts with dots is not a 'Type: message' line and counts as non-traceback text",
]
NSHARDS = {'quick': 16, 'thorough': 16}
RULE += (' Directed probes: the scope of +IGNORE_EXCEPTION_DETAIL by carrier placement (block, behind code, on opening / closing line of a multi-line statement, next to comment-only and empty continuation lines, on the raising statement itself); an earlier want-less statement raising the documented exception; output printed before an expected exception; outcome exceptions of pytest.')

KINDS = ['builtin', 'builtin_called', 'user', 'user_called', 'dotted', 'module', 'coroutine', 'assert', 'noted', 'syntax',
         'group', 'chained', 'indent', 'taberror', 'nameerror_near']
MSGS = {'empty': None, 'plain': 'some detail', 'colons': 'a: b: c', 'multi': 'line1\nline2', 'dots': 'pre ... post',
        # an error relayed from elsewhere: the message quotes another traceback
        'relayed': 'worker failed\nTraceback (most recent call last):\nValueError: inner'}
POSITIONS = ['first', 'middle', 'last']
WANTS = ['none', 'exact', 'stack', 'wrongmsg', 'wrongtype', 'nontb', 'ellipsis', 'exact_noraise', 'suffixtype']
FLAGSETS = list(itertools.product([0, 1], repeat=3))     # IED, ELLIPSIS, IGNORE_WANT

EXTRA = '''
class _ModErrorBase(Exception): pass
def raiser(cls, *a):
    raise cls(*a)
async def araiser(cls, *a):
    await _asyncio.sleep(0)
    raise cls(*a)
def raiser_noted(cls, *a):
    e = cls(*a)
    e.add_note("note one")
    e.add_note("second note")
    raise e
def raiser_from(cls, *a):
    try:
        1 / 0
    except ZeroDivisionError as ex:
        raise cls(*a) from ex
'''


def _module():
    m = sys.modules.get('xvmod.sub')
    if m is None:
        pkg = types.ModuleType('xvmod')
        m = types.ModuleType('xvmod.sub')
        exec('class ModError(Exception):\n    pass\n', m.__dict__)
        pkg.sub = m
        sys.modules['xvmod'] = pkg
        sys.modules['xvmod.sub'] = m
    return m


def extra_ns():
    ns = {}
    ns['_asyncio'] = __import__('asyncio')
    exec(EXTRA, ns)
    ns['xvmod'] = sys.modules.get('xvmod') or (_module() and sys.modules['xvmod'])
    import decimal
    ns['decimal'] = decimal
    return {k: v for k, v in ns.items() if not k.startswith('__')}


def raising_source(kind, msg):
    """(pre-statements, raising statement lines) for the doctest"""
    m = repr(msg) if msg is not None else ''
    cm = (', ' + m) if m else ''
    if kind == 'builtin':
        return [], 'raise ValueError(%s)' % m
    if kind == 'builtin_called':
        return [], 'raiser(KeyError%s)' % cm
    if kind == 'user':
        return ['class UserErr(Exception): pass'], 'raise UserErr(%s)' % m
    if kind == 'user_called':
        return ['class UserErr(Exception): pass'], 'raiser(UserErr%s)' % cm
    if kind == 'dotted':
        return [], 'raise decimal.InvalidOperation(%s)' % m
    if kind == 'module':
        return [], 'raiser(xvmod.sub.ModError%s)' % cm
    if kind == 'coroutine':
        return [], 'await araiser(LookupError%s)' % cm
    if kind == 'assert':
        return [], 'assert False, %s' % (m or '""')
    if kind == 'noted':
        # notes attached to the exception (PEP 678) are printed under the message line
        return [], 'raiser_noted(ValueError%s)' % cm
    if kind == 'syntax':
        # raised by the compiler at run time: its report has source context lines before the message
        return [], 'compile("x = = 1", %s, "exec")' % (m or '"<s>"')
    if kind == 'indent':
        # errors of the SyntaxError family whose location lies in the leading blanks of the line: the interpreter prints
        # the source line but no caret line under it
        return [], 'compile("  x = 1", %s, "exec")' % (m or '"<s>"')
    if kind == 'taberror':
        return [], 'compile("if 1:\\n\\tx = 1\\n        y = 2\\n", %s, "exec")' % (m or '"<s>"')
    if kind == 'nameerror_near':
        # a NameError for a name that has a close neighbour in the doctest's namespace: the interpreter's traceback display
        # adds a suggestion ("Did you mean ...?"), the exception's own message does not hold it
        return ['total_count_zz = 3'], 'total_coun_zz + 1'
    if kind == 'group':
        return [], 'raise ExceptionGroup(%s, [ValueError(1), KeyError(2)])' % (m or '"eg"')
    if kind == 'chained':
        return [], 'raiser_from(KeyError%s)' % cm
    raise KeyError(kind)


_TRUE = {}


def true_line(kind, msg):
    key = (kind, msg)
    if key not in _TRUE:
        import ast
        import asyncio
        pre, src = raising_source(kind, msg)
        ns = gp.make_namespace([])
        ns.update(extra_ns())
        for p in pre:
            exec(p, ns)
        try:
            code = compile(src, '<ref>', 'exec', flags=ast.PyCF_ALLOW_TOP_LEVEL_AWAIT)
            if code.co_flags & 0x80:
                asyncio.run(eval(code, ns))
            else:
                exec(code, ns)
        except Exception as ex:
            from xv import models
            _TRUE[key] = (models.exception_text(ex), type(ex).__name__)
        else:
            raise AssertionError('did not raise: %s' % src)
    return _TRUE[key]


def neighbour(rng, k):
    """a neighbouring statement with id k -> (lines incl. want, trace events)"""
    r = rng.random()
    if r < 0.5:
        return ['>>> quiet(%d)' % k], [k]
    if r < 0.7:
        return ['>>> emit(%d)' % k, 'e%d' % k], [k]
    if r < 0.85:
        return ['>>> for _ in range(2):', '...     quiet(%d)' % k], [k, k]
    return ['>>> v%d = [' % k, '...     quiet(%d)]' % k], [k]


def build(kind, mk, pos, wf, flags, ctxno):
    import hashlib
    rng = random.Random(int(hashlib.sha1(repr((kind, mk, pos, wf, flags, ctxno)).encode()).hexdigest()[:12], 16))
    msg = MSGS[mk]
    line, ename = true_line(kind, msg)
    ied, ell, igw = flags
    pre, src = raising_source(kind, msg)
    if kind == 'nameerror_near':
        msg = 'given by the interpreter'        # (the message does not depend on the message dimension: never empty)
    L = []
    dirs = []
    if ied:
        dirs.append('+IGNORE_EXCEPTION_DETAIL')
    if not ell:
        dirs.append('-ELLIPSIS')
    if igw:
        dirs.append('+IGNORE_WANT')
    if dirs:
        L.append('>>> # xdoctest: ' + ', '.join(dirs))
    for p in pre:
        L.append('>>> ' + p)
    npre = {'first': 0, 'middle': 2, 'last': 2}[pos]
    npost = {'first': 2, 'middle': 2, 'last': 0}[pos]
    if ctxno:
        npre += rng.randint(0, 2) if pos != 'first' else 0
        npost += rng.randint(0, 2) if pos != 'last' else 0
    k = 0
    before = []
    for _ in range(npre):
        k += 1
        if ctxno:
            ls, ev = neighbour(rng, k)
        else:
            ls, ev = ['>>> quiet(%d)' % k], [k]
        L.extend(ls)
        before.extend(ev)
    k += 1
    rid = k
    raising = wf != 'exact_noraise'
    if raising:
        if kind in ('assert', 'coroutine'):
            L.append('>>> quiet(%d)' % k)
            L.append('>>> ' + src)
        else:
            L.append('>>> quiet(%d); %s' % (k, src))
    else:
        L.append('>>> quiet(%d)' % k)
    before.append(rid)
    first = line.split('\n')[0]
    tname = first.split(':')[0] if ':' in first else first
    hdr = 'Traceback (most recent call last):'
    if wf == 'none':
        want = []
    elif wf in ('exact', 'exact_noraise'):
        want = [hdr] + line.split('\n')
    elif wf == 'stack':
        want = [hdr, '  File "<stdin>", line 1, in <module>', '    whatever()'] + line.split('\n')
    elif wf == 'wrongmsg':
        want = [hdr, tname + ': WRONGTOKEN']
    elif wf == 'wrongtype':
        want = [hdr] + ('OtherError' + line[len(tname):]).split('\n')
    elif wf == 'suffixtype':
        # another type whose name is the tail of the real one ('ror' for 'ValueError'): not the same type
        suf = tname[-2:] if tname[-4:-3] == '.' else tname[-3:]
        want = [hdr] + (suf + line[len(tname):]).split('\n')
    elif wf == 'nontb':
        want = ['some ordinary output']
    elif wf == 'ellipsis':
        want = [hdr, tname + ': ...'] if msg else [hdr, tname[:3] + '...' + tname[-2:]]
    L += want
    after = []
    for _ in range(npost):
        k += 1
        if ctxno:
            ls, ev = neighbour(rng, k)
        else:
            ls, ev = ['>>> quiet(%d)' % k], [k]
        L.extend(ls)
        after.extend(ev)
    # ---- the decision table
    asserted = True
    if not raising:
        if igw:
            exp = None
            asserted = False
        else:
            exp = 'gotwant'
    else:
        if wf in ('none', 'nontb'):
            exp = ('exc', ename)
        elif igw:
            exp = None
            asserted = False
        elif wf in ('exact', 'stack'):
            exp = 'pass'
        elif wf == 'wrongmsg':
            exp = 'pass' if ied else 'gotwant'
        elif wf in ('wrongtype', 'suffixtype'):
            exp = 'gotwant'
        elif wf == 'ellipsis':
            if msg:
                exp = 'pass' if (ell or ied) else 'gotwant'
            else:
                exp = 'pass' if ell else 'gotwant'
    T_pass = before + after
    T_fail = before
    return '\n'.join(L), exp, asserted, T_pass, T_fail, ename


def run_cell(ctx, kind, mk, pos, wf, flags, ctxno, on_error):
    from xdoctest import checker, doctest_example
    doc, exp, asserted, T_pass, T_fail, ename = build(kind, mk, pos, wf, flags, ctxno)
    case = {'kind': kind, 'msg': mk, 'pos': pos, 'want_form': wf, 'flags': list(flags), 'ctxno': ctxno,
            'on_error': on_error, 'doc': doc}
    ctx.evaluation()
    ctx.nontrivial((doc, on_error))
    dt = doctest_example.DocTest(doc)
    rec = harness.run_doctest(dt, on_error=on_error, extra_ns=extra_ns())
    ctx.event('doctest_runs')

    def bad(mech, msg, **kw):
        ctx.violation(mech, msg + '\n  cell=%s/%s/%s/%s flags(IED,ELL,IGW)=%s on_error=%s\n--- docstring ---\n%s' % (
            kind, mk, pos, wf, flags, on_error, doc), case, **kw)

    # observed verdict
    if on_error == 'return':
        if rec.raised is not None:
            bad('run-raised', 'run(on_error="return") raised %r' % (rec.raised,))
            return
        s = rec.summary
        if s['passed']:
            got = 'pass'
        elif s['failed'] and isinstance(s['exc_info'][1], checker.GotWantException):
            got = 'gotwant'
        elif s['failed']:
            got = ('exc', s['exc_info'][0].__name__)
        else:
            got = 'skipped'
    else:
        if rec.raised is None:
            s = rec.summary
            got = 'pass' if s and s['passed'] else 'noraise-' + harness.outcome(s)
        elif isinstance(rec.raised, checker.GotWantException):
            got = 'gotwant'
        elif isinstance(rec.raised, Exception):
            got = ('exc', type(rec.raised).__name__)
        else:
            bad('run-raised', 'run(on_error="raise") raised non-Exception %r' % (rec.raised,))
            return
    ctx.event('verdicts_observed')
    T = rec.T
    cellname = '%s/%s/%s' % (wf, 'IED' if flags[0] else '-', 'ELL' if flags[1] else '-')
    if asserted:
        if got != exp:
            if exp == 'gotwant' or (isinstance(exp, tuple)):
                mech = 'swallowed' if got == 'pass' else 'wrong-failure'
            else:
                mech = 'false-fail'
            bad(mech, 'decision table says %r, observed %r (event log %r)' % (exp, got, T), observed=str(got),
                expected=str(exp))
            return
        expT = T_pass if exp == 'pass' else T_fail
        if T != expT:
            bad('trace', 'verdict %r is right but the event log is %r, expected %r (%s)' % (
                got, T, expT, 'statements after an expected exception must still run' if exp == 'pass'
                else 'statements after the failure must not run'), observed=T, expected=expT)
            return
        ctx.cell('asserted:' + cellname)
    else:
        # consistency only
        if got == 'pass' and T != T_pass:
            bad('trace', 'passed but event log %r != %r' % (T, T_pass))
            return
        if got != 'pass' and T != T_fail:
            bad('trace', 'failed (%r) but event log %r != %r' % (got, T, T_fail))
            return
        ctx.cell('consistency-only:' + wf)
    ctx.cell('kind:' + kind)
    ctx.cell('msg:' + mk)
    ctx.cell('pos:' + pos)
    ctx.cell('on_error:' + on_error)
    if ctx.shard == 0 and wf in ('nontb', 'ellipsis', 'stack'):
        ctx.sample({'cell': [kind, mk, pos, wf, list(flags)], 'docstring': doc, 'table': str(exp),
                    'observed': str(got), 'event_log': T}, limit=3)


def all_cells():
    cells = []
    for kind in KINDS:
        for mk in MSGS:
            if kind in ('assert', 'noted', 'syntax', 'group', 'indent', 'taberror') and mk == 'empty':
                continue
            if kind in ('syntax', 'indent', 'taberror') and mk != 'plain':
                continue        # the compiler words the message itself
            for pos in POSITIONS:
                for wf in WANTS:
                    for flags in FLAGSETS:
                        cells.append((kind, mk, pos, wf, flags))
    return cells


F10_PROBES = [
    # IGNORE_EXCEPTION_DETAIL, -ELLIPSIS, final line 'Val...' (no colon, ends in a dot): stripped to '' -> matches anything
    '>>> # xdoctest: +IGNORE_EXCEPTION_DETAIL, -ELLIPSIS\n>>> raise KeyError()\nTraceback (most recent call last):\nVal...',
    '>>> # xdoctest: +IGNORE_EXCEPTION_DETAIL, -ELLIPSIS\n>>> raiser(LookupError)\nTraceback (most recent call last):\n  File "x", line 1\nOth...',
]


def probe_f10(ctx):
    from xdoctest import doctest_example
    for doc in F10_PROBES:
        ctx.evaluation()
        dt = doctest_example.DocTest(doc)
        rec = harness.run_doctest(dt, extra_ns=extra_ns())
        s = rec.summary
        if rec.raised is not None or not s['failed']:
            ctx.violation('swallowed', 'a traceback want naming another exception (%r) let the exception pass: %s\n%s' % (
                doc.split('\n')[-1], harness.outcome(s), doc), {'probe': 'F10', 'doc': doc}, f10=True)
        else:
            ctx.cell('f10-probe-fails-as-it-should')


# an EARLIER statement without a want raises the very exception a LATER statement documents (finding F32): the doctest
# fails at the earlier statement, nothing after it runs.  The documented statement is not an expression (those always
# get a part of their own), the statements in between may or may not exist.
EARLIER_FINALS = ['raise ValueError("same")', 'x = int("same")', 'del undefined_name_zz', 'assert False, "same"',
                  'import no_such_module_zz']
EARLIER_TRUE = {'raise ValueError("same")': ('raise ValueError("same")', 'ValueError: same'),
                'x = int("same")': ('int("same")', "ValueError: invalid literal for int() with base 10: 'same'"),
                'del undefined_name_zz': ('undefined_name_zz', "NameError: name 'undefined_name_zz' is not defined"),
                'assert False, "same"': ('assert False, "same"', 'AssertionError: same'),
                'import no_such_module_zz': ('import no_such_module_zz', "ModuleNotFoundError: No module named 'no_such_module_zz'")}


def probe_earlier_raise(ctx):
    from xdoctest import doctest_example
    for final in EARLIER_FINALS:
        early, line = EARLIER_TRUE[final]
        for between, lead, directive in itertools.product((0, 1, 2), (0, 1), (None, 'block', 'inline', 'block-ied')):
            if True:
                # (a directive in the same chunk changes how the chunk is cut into parts)
                L = ['>>> quiet(%d)' % (k + 1) for k in range(lead)]
                if directive == 'block':
                    L += ['>>> # xdoctest: +ELLIPSIS']
                elif directive == 'block-ied':
                    L += ['>>> # doctest: +IGNORE_EXCEPTION_DETAIL']
                elif directive == 'inline':
                    L += ['>>> quiet(7)  # xdoctest: +ELLIPSIS']
                L += ['>>> ' + early]
                L += ['>>> quiet(%d)' % (50 + k) for k in range(between)]
                L += ['>>> ' + final, 'Traceback (most recent call last):', line, '>>> quiet(99)']
                doc = '\n'.join(L)
                ctx.evaluation()
                case = {'probe': 'earlier-raise', 'doc': doc}
                dt = doctest_example.DocTest(doc)
                rec = harness.run_doctest(dt, extra_ns=extra_ns())
                s = rec.summary
                exp_T = list(range(1, lead + 1)) + ([7] if directive == 'inline' else [])
                if rec.raised is not None or not s['failed'] or rec.T != exp_T:
                    ctx.violation('earlier-exception-credited', 'a statement WITHOUT a want raises the exception a later '
                                  "statement's traceback want documents: the doctest must fail there with event log %r; observed "
                                  '%s, event log %r\n%s' % (exp_T, harness.outcome(s) if rec.raised is None else repr(rec.raised),
                                                            rec.T, doc), case)
                else:
                    ctx.cell('earlier-raise-fails-as-it-should')
                    if directive:
                        ctx.cell('earlier-raise-behind-a-directive')
                    ctx.nontrivial_count(1)
                # control: without the earlier statement the documented one is the expected exception, all else runs
                k_early = lead + (1 if directive else 0)
                assert L[k_early] == '>>> ' + early
                L2 = L[:k_early] + L[k_early + 1:]
                doc2 = '\n'.join(L2)
                ctx.evaluation()
                rec = harness.run_doctest(doctest_example.DocTest(doc2), extra_ns=extra_ns())
                exp_T2 = list(range(1, lead + 1)) + ([7] if directive == 'inline' else []) + [50 + k for k in range(between)] + [99]
                if rec.raised is not None or not rec.summary['passed'] or rec.T != exp_T2:
                    ctx.violation('false-fail', 'an expected exception documented under a statement that is not an expression: '
                                  'must pass with event log %r; observed %s, event log %r\n%s' % (
                                      exp_T2, harness.outcome(rec.summary) if rec.raised is None else repr(rec.raised), rec.T, doc2),
                                  {'probe': 'earlier-raise', 'doc': doc2})
                else:
                    ctx.cell('documented-exception-under-a-non-expression-passes')


def probe_output_before_exception(ctx):
    """text printed before an expected exception belongs to the time before that want: a later want cannot claim it
    (finding F43); the later statement's own output still can be wanted"""
    from xdoctest import doctest_example
    head = ['>>> print("early")', '>>> raise ValueError("same")', 'Traceback (most recent call last):', 'ValueError: same',
            '>>> quiet(1)', '>>> print("late")']
    for tail, expect in ((['early', 'late'], 'failed'), (['late'], 'passed'), (['...', 'late'], 'passed')):
        for on_its_own_part in (False, True):
            L = list(head)
            if on_its_own_part:
                L.insert(1, '')     # the printing statement in a part of its own
                L.insert(2, 'some prose')
                L.insert(3, '')
            doc = '\n'.join(L + tail)
            ctx.evaluation()
            rec = harness.run_doctest(doctest_example.DocTest(doc), extra_ns=extra_ns())
            got = 'raised' if rec.raised is not None else harness.outcome(rec.summary)
            if got != expect or rec.T != [1]:
                ctx.violation('stale-output-after-exception', 'output printed before an expected exception and a later want %r: '
                              'expected %s with event log [1], observed %s, event log %r\n%s' % (tail, expect, got, rec.T, doc),
                              {'probe': 'output-before-exception', 'doc': doc})
            else:
                ctx.cell('output-before-exception:' + expect)

FLAG_CARRIERS = [
    # (name, lines carrying "+IGNORE_EXCEPTION_DETAIL" [%s = the directive comment], scope)
    ('block', ['>>> %s', '>>> quiet(1)'], 'block'),
    ('block-after-code', ['>>> quiet(1)', '>>> %s'], 'block'),
    ('inline-one-line', ['>>> quiet(1)  %s'], 'inline'),
    ('inline-opening-line', ['>>> v = [  %s', '...     quiet(1)]'], 'inline'),
    ('inline-closing-line', ['>>> v = [', '...     quiet(1)]  %s'], 'inline'),
    ('inline-with-comment-line', ['>>> v = [  %s', '...     # a remark on a line of its own', '...     quiet(1)]'], 'inline'),
    ('inline-after-comment-line', ['>>> v = [', '...     # a remark on a line of its own', '...     quiet(1)]  %s'], 'inline'),
    ('inline-with-blank-line', ['>>> v = [  %s', '...', '...     quiet(1)]'], 'inline'),
]


def probe_flag_scope(ctx):
    """how far +IGNORE_EXCEPTION_DETAIL / -ELLIPSIS reach: a directive comment behind code holds for that statement
    only, one on a line of its own for the rest of the doctest.  A later raising statement whose traceback want has the
    right type and the wrong message decides which of the two took place"""
    from xdoctest import doctest_example
    tail = ['>>> quiet(2)', '>>> raise ValueError("the real message")', 'Traceback (most recent call last):',
            'ValueError: another message', '>>> quiet(3)']
    for name, lines, scope in FLAG_CARRIERS:
        for spelling in ('# xdoctest: +IGNORE_EXCEPTION_DETAIL', '# doctest: +IGNORE_EXCEPTION_DETAIL'):
            L = [ln % spelling if '%s' in ln else ln for ln in lines] + tail
            doc = '\n'.join(L)
            ctx.evaluation()
            ctx.nontrivial((doc, 'flag-scope'))
            rec = harness.run_doctest(doctest_example.DocTest(doc), extra_ns=extra_ns())
            got = 'raised' if rec.raised is not None else harness.outcome(rec.summary)
            exp, exp_T = ('passed', [1, 2, 3]) if scope == 'block' else ('failed', [1, 2])
            if got != exp or rec.T != exp_T:
                ctx.violation('swallowed' if got == 'passed' else 'false-fail',
                              'flag carrier %r (%s scope) before a raising statement whose want has the wrong message: expected '
                              '%s with event log %r, observed %s, event log %r\n--- docstring ---\n%s' % (
                                  name, scope, exp, exp_T, got, rec.T, doc), {'probe': 'flag-scope', 'doc': doc})
            else:
                ctx.cell('flag-scope:' + name)
    # the inline flag on the raising statement itself (a call spread over lines, with a comment-only line inside)
    for name, lines in (
            ('on-raising-one-line', ['>>> raiser(ValueError, "the real message")  %s']),
            ('on-raising-multi-line', ['>>> raiser(ValueError,  %s', '...        # a remark on a line of its own',
                                       '...        "the real message")']),
            ('on-raising-closing-line', ['>>> raiser(ValueError,', '...        # a remark on a line of its own',
                                         '...        "the real message")  %s']),
            ('on-raising-behind-an-empty-line', ['>>> raiser(ValueError,', '...', '...        "the real message")  %s']),
            ('on-raising-behind-an-empty-string-line', [">>> raiser(ValueError, len('''a", '...', "... b''') and",
                                                        '...        "the real message")  %s'])):
        L = ['>>> quiet(1)'] + [ln % '# xdoctest: +IGNORE_EXCEPTION_DETAIL' if '%s' in ln else ln for ln in lines] + [
            'Traceback (most recent call last):', 'ValueError: another message', '>>> quiet(3)',
            '>>> raise KeyError("k")', 'Traceback (most recent call last):', 'KeyError: other']
        doc = '\n'.join(L)
        ctx.evaluation()
        ctx.nontrivial((doc, 'flag-scope'))
        rec = harness.run_doctest(doctest_example.DocTest(doc), extra_ns=extra_ns())
        got = 'raised' if rec.raised is not None else harness.outcome(rec.summary)
        # the first exception is accepted (flag on its own statement), the second is not (flag gone): fails there
        if got != 'failed' or rec.T != [1, 3]:
            ctx.violation('swallowed' if got == 'passed' else 'false-fail',
                          'inline +IGNORE_EXCEPTION_DETAIL %s: the first exception must be accepted and the second (same '
                          'shape, no flag) must fail: expected failed with event log [1, 3], observed %s, event log %r\n'
                          '--- docstring ---\n%s' % (name, got, rec.T, doc), {'probe': 'flag-scope', 'doc': doc})
        else:
            ctx.cell('flag-scope:' + name)


def required_cells(tier):
    cells = []
    for wf in WANTS:
        for ied in ('IED', '-'):
            for ell in ('ELL', '-'):
                cells.append('asserted:%s/%s/%s' % (wf, ied, ell))
    cells += ['kind:' + k for k in KINDS] + ['msg:' + m for m in MSGS] + ['pos:' + p for p in POSITIONS]
    cells += ['on_error:return', 'on_error:raise']
    cells += ['outcome-exception:' + n for n, _ in OUTCOME_RAISERS]
    cells += ['earlier-raise-fails-as-it-should', 'documented-exception-under-a-non-expression-passes',
              'earlier-raise-behind-a-directive', 'output-before-exception:failed', 'output-before-exception:passed']
    cells += ['flag-scope:' + n for n, _, _ in FLAG_CARRIERS]
    cells += ['flag-scope:on-raising-one-line', 'flag-scope:on-raising-multi-line', 'flag-scope:on-raising-closing-line',
              'flag-scope:on-raising-behind-an-empty-line', 'flag-scope:on-raising-behind-an-empty-string-line']
    return cells


OUTCOME_RAISERS = [
    ('pytest.fail', ['>>> pytest.fail("outcome %d")']),
    ('pytest.raises-did-not-raise', ['>>> with pytest.raises(ValueError):', '...     quiet(%d)']),
    ('pytest.xfail', ['>>> pytest.xfail("expected to fail %d")']),
    ('pytest.exit', ['>>> raise pytest.exit.Exception("stop %d")']),
]


def probe_outcome_exceptions(ctx):
    """exceptions that do not derive from Exception (pytest's outcome exceptions other than Skipped): they are
    exceptions raised by doctest code too.  Whether run() returns a failed summary or lets them propagate, the
    doctest must not be reported as passed and nothing after the raising statement may run"""
    from xdoctest import doctest_example
    try:
        import pytest
    except ImportError:
        ctx.unavailable.add('pytest (outcome exceptions)')
        return
    for name, lines in OUTCOME_RAISERS:
        for want in ([], ['some ordinary output']):
            for on_error in ('return', 'raise'):
                for pos in ('first', 'middle'):
                    L = []
                    before = []
                    if pos == 'middle':
                        L += ['>>> quiet(1)', '>>> print("x")', 'x']
                        before = [1]
                    L += [ln % 7 if '%d' in ln else ln for ln in lines] + want + ['>>> quiet(9)']
                    if 'did-not-raise' in name:
                        before = before + [7]
                    doc = '\n'.join(L)
                    case = {'probe': 'outcome', 'raiser': name, 'doc': doc, 'on_error': on_error}
                    ctx.evaluation()
                    ctx.nontrivial((doc, on_error))
                    dt = doctest_example.DocTest(doc)
                    ns = extra_ns()
                    ns['pytest'] = pytest
                    rec = harness.run_doctest(dt, on_error=on_error, extra_ns=ns)
                    ctx.event('doctest_runs')
                    passed = rec.raised is None and rec.summary is not None and rec.summary['passed']
                    if passed or rec.T != before:
                        ctx.violation('swallowed', 'the doctest code raised %s (want %r); the run %s and the event log is %r, '
                                      'expected %r: the exception was swallowed\n--- docstring ---\n%s' % (
                                          name, want, 'reports passed' if passed else 'did not pass', rec.T, before, doc), case)
                    else:
                        ctx.cell('outcome-exception:' + name)


def run_shard(ctx):
    import warnings
    warnings.simplefilter('ignore')
    _module()
    cells = all_cells()
    nctx = ctx.pick(1, 10)
    ctx.notes['decision_table_cells'] = len(cells)
    ctx.exhaustive = True
    total = len(cells) * nctx
    for i in ctx.my_indices(total):
        cell = cells[i % len(cells)]
        ctxno = i // len(cells)
        on_error = 'return' if (i + ctxno + ctx.seed) % 2 == 0 else 'raise'
        run_cell(ctx, *cell, ctxno=ctxno + 100 * ctx.seed if ctxno else (100 * ctx.seed), on_error=on_error)
    if ctx.shard == 0:
        probe_f10(ctx)
    if ctx.shard == 1 % ctx.nshards:
        probe_outcome_exceptions(ctx)
    if ctx.shard == 2 % ctx.nshards:
        probe_earlier_raise(ctx)
    if ctx.shard == 3 % ctx.nshards:
        probe_output_before_exception(ctx)
    if ctx.shard == 4 % ctx.nshards:
        probe_flag_scope(ctx)


def replay(case, ctx):
    import warnings
    warnings.simplefilter('ignore')
    _module()
    if case.get('probe') == 'F10':
        probe_f10(ctx)
        return
    if case.get('probe') == 'outcome':
        probe_outcome_exceptions(ctx)
        return
    if case.get('probe') == 'earlier-raise':
        probe_earlier_raise(ctx)
        return
    if case.get('probe') == 'output-before-exception':
        probe_output_before_exception(ctx)
        return
    if case.get('probe') == 'flag-scope':
        probe_flag_scope(ctx)
        return
    run_cell(ctx, case['kind'], case['msg'], case['pos'], case['want_form'], tuple(case['flags']), case['ctxno'],
             case['on_error'])


def classify(v):
    # F10 by mechanism: IGNORE_EXCEPTION_DETAIL on, ELLIPSIS off, the want's final line has no colon and ends in a dot
    # -> the stripped want is empty and an empty want matches everything
    if v.get('mechanism') != 'swallowed':
        return None
    doc = v['case'].get('doc', '')
    lines = doc.split('\n')
    if '+IGNORE_EXCEPTION_DETAIL' in lines[0] and '-ELLIPSIS' in lines[0]:
        wl = [ln for ln in lines if not ln.startswith(('>>>', '...'))]
        if wl and ':' not in wl[-1] and wl[-1].rstrip().endswith('.'):
            return 'ied-empty-stripped-want'
    return None


LEVEL_TEXT = ("Fault enumeration: the whole decision table (about 7.6 k cells) is executed against the real run loop and "
              "checker, in one (quick) or ten (thorough) statement contexts and under both on_error modes; verdict, exception "
              "type and the event log after the raising statement are compared with the table.  Every asserted (want form x "
              "IED x ELLIPSIS) cell must be observed, else the run is inconclusive.")
LEVEL_NOTE = ("Trusted: traceback.format_exception_only for the true final line; the table is the property's sentence read "
              "literally, with the undocumented IGNORE_WANT x traceback-want cells reduced to verdict/event-log consistency.")
TECHNIQUE = "runtime monitor: fault enumeration over the exception decision table, oracle = table lookup on (verdict, exception type, event log suffix)"

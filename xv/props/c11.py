"""
C11 - Runs are isolated: a doctest behaves the same whatever ran before it.

Histories (orders, repetitions, subsets, re-runs of the same DocTest object, freshly parsed objects)
over generated modules whose doctests bind clashing names, read names other doctests bind, rebind
module globals, leave SKIP / unmet REQUIRES / report style / matching flags switched on, replace
sys.stdout, change warning filters, and switch-dependent doctests whose behaviour depends on an
environment variable.
Oracle: baseline = each (doctest, switch) run ALONE in a fresh process (a pristine helper process
forks one child per observation); in every history each run's (outcome, exception type, logged
stdout, event-log delta) must equal its baseline, and at the quiescent points between runs the
module's __dict__ must hold the same objects as before.
"""
import io
import os
import sys
import copy
import json
import random
import warnings
import contextlib
import subprocess

PROPERTY = 'C11'
LEVEL = 'exploration'
RULE = ("modules of 3..6 doctests drawn from 19 body kinds (bind / read a shared name, rebind a module global, leave SKIP, "
        "unmet REQUIRES, report style or matching flags on, need default flags, replace sys.stdout, set warning filters to "
        "error, emit a warning, fail after unmatched output, fail by output, bind a name and then fail by exception / by output, env-switch dependent output/exception/want); "
        "directed histories first (every doctest twice on the same object; every switch-dependent doctest with the switch "
        "A then B and B then A on the same object; every ordered pair), then random histories (length <= 6 quick, <= 20 "
        "thorough) mixing re-used and freshly parsed objects; per module the session's default directive state (what --options builds) is empty or one of five harmless non-empty ones (flags, an empty REQUIRES set), handed as ONE dict to every doctest of a history like the front ends do.  One evaluation = one run inside a history compared with its "
        "fresh-process baseline.  Non-trivial = the run is preceded by at least one other run in its history; distinct by "
        "(module source, history prefix) hash")
ASSUMPTIONS = [
    "the baseline process is 'fresh' in that no doctest ran in it before: a pristine helper process (only xdoctest "
    "imported) forks one child per (doctest, switch)",
    "the generated modules own an event list T that doctests append to on purpose; it is compared as a per-run delta",
    "two internal observations (directive.DEFAULT_RUNTIME_STATE equal to a pristine deep copy, namespace empty after a "
    "run) are recorded as diagnostics only and never decide",
]
NSHARDS = {'quick': 16, 'thorough': 16}
RULE += (' Body kinds added during the build: echo of a value through sys.displayhook / reading builtins._, annotated assignment / reading __annotations__, an awaited part that leaves a task behind / a later await, module requirements sharing a package; probes module-patch (the module changed through its module object between runs) and module-installs-underscore (a module that installs builtins._ when imported, with passing, echoing and raising single-mode parts).')

BODIES = [
    ('bind', ['>>> try:', '...     SHARED', '... except NameError:', '...     print("fresh")', '... else:',
              '...     print("stale")', '>>> SHARED = 1', '>>> MODGLOBAL = "rebound"', '>>> T.append("{id}")', 'fresh']),
    ('read', ['>>> try:', '...     SHARED', '... except NameError:', '...     print("fresh")', '... else:',
              '...     print("stale")', '>>> print(MODGLOBAL)', '>>> T.append("{id}")', 'fresh', 'orig']),
    ('leave_skip', ['>>> T.append("{id}")', '>>> print("x{id}")', 'x{id}', '>>> # xdoctest: +SKIP', '>>> print("never")']),
    ('leave_req', ['>>> T.append("{id}")', '>>> # xdoctest: +REQUIRES(module:nx_zz_{id})', '>>> print("never")']),
    ('leave_report', ['>>> T.append("{id}")', '>>> # xdoctest: -REPORT_UDIFF, +REPORT_NDIFF', '>>> x = 1']),
    ('leave_flags', ['>>> T.append("{id}")', '>>> # xdoctest: -ELLIPSIS, -NORMALIZE_WHITESPACE, +IGNORE_WANT', '>>> x = 1']),
    ('needs_flags', ['>>> T.append("{id}")', '>>> print("a   b c")', 'a b...']),
    ('stdout', ['>>> import sys, io', '>>> T.append("{id}")', '>>> sys.stdout = io.StringIO()', '>>> print("lost")']),
    ('warn', ['>>> import warnings', '>>> T.append("{id}")', '>>> warnings.simplefilter("error")']),
    ('uses_warn', ['>>> import warnings', '>>> T.append("{id}")', '>>> warnings.warn("w{id}")', '>>> print("ok")', 'ok']),
    ('fail_after_out', ['>>> T.append("{id}")', '>>> print("o{id}")', '', 'prose', '', '>>> print("p{id}")', '', 'prose', '',
                        '>>> raise ValueError("v")']),
    ('switch', ['>>> import os', '>>> T.append("{id}")', '>>> if os.environ.get("XV_SW") == "A": print("sw{id}")', '', 'prose',
                '', '>>> if os.environ.get("XV_SW") == "A": raise ValueError("A")', '', 'prose', '', '>>> y = 1', 'sw{id}']),
    ('switch_bind', ['>>> import os', '>>> T.append("{id}")', '>>> if os.environ.get("XV_SW") == "A": LEFT{id} = 1',
                     '>>> print("LEFT{id}" in dir())', 'False' if False else '{sw_left}']),
    # directives whose condition is a fact about the process: judged when the directive is reached, on every run
    ('switch_requires', ['>>> T.append("pre{id}")', '>>> # xdoctest: +REQUIRES(env:XV_SW==A)', '>>> T.append("{id}")',
                         '>>> print("ran{id}")', 'ran{id}']),
    ('switch_requires_inline', ['>>> T.append("{id}")  # xdoctest: +REQUIRES(env:XV_SW!=A)', '>>> print("after{id}")',
                                'after{id}']),
    # module requirements that share a top-level package: a missing submodule says nothing about the package
    ('req_missing_sub', ['>>> T.append("pre{id}")', '>>> # xdoctest: +REQUIRES(module:{pkg}.no_such_submodule_zz)',
                         '>>> T.append("{id}")']),
    ('req_existing_pkg', ['>>> # xdoctest: +REQUIRES(module:{pkg})', '>>> T.append("{id}")', '>>> print("has{id}")', 'has{id}']),
    ('gotwant_fail', ['>>> T.append("{id}")', '>>> print("a")', 'b']),
    # a compound statement that echoes a value (the interactive interpreter's way: the value goes through
    # sys.displayhook) and a doctest that looks at the interpreter's "last value" name
    # an annotated assignment records its annotation in the __annotations__ found in the doctest's globals
    ('annotated_assign', ['>>> T.append("{id}")', '>>> note_{id}: str = "q"', '>>> print(sorted(__annotations__))',
                          "['MODANNOT', 'note_{id}']"]),
    ('reads_annotations', ['>>> T.append("{id}")', '>>> print(sorted(__annotations__))', "['MODANNOT']"]),
    # a part with top-level await starts a background task and ends without awaiting it; a later doctest awaits something:
    # what the first one left behind must not wake up inside the second
    ('spawns_task', ['>>> import asyncio', '>>> T.append("{id}")', '>>> async def ticker():', '...     await asyncio.sleep(0)',
                     '...     print("tick from {id}")', '...     T.append("tick {id}")', '>>> async def spawn():',
                     '...     return asyncio.ensure_future(ticker())', '>>> task = await spawn()']),
    ('awaits_later', ['>>> import asyncio', '>>> T.append("{id}")', '>>> await asyncio.sleep(0.01)', '>>> print("done {id}")',
                      'done {id}']),
    ('echo_value', ['>>> T.append("{id}")', '>>> if 1:', '...     6 * 7', '42']),
    ('reads_last_value', ['>>> T.append("{id}")', '>>> try:', '...     print("stale", _)', '... except NameError:',
                          '...     print("fresh")', 'fresh']),
    # nothing runs at all: skipped on every run, also on the n-th run of the same object
    ('all_skipped', ['>>> # xdoctest: +SKIP', '>>> T.append("{id}")', '>>> print("never")', 'BOGUS']),
    ('all_unmet', ['>>> # xdoctest: +REQUIRES(module:nx_zz_{id})', '>>> T.append("{id}")']),
    ('half_skipped', ['>>> T.append("{id}")', '>>> print("x{id}")  # xdoctest: +SKIP', 'BOGUS']),
    # binds a name and then FAILS: a re-run of the same object must not find the name either
    ('bind_then_raise', ['>>> try:', '...     OWNNAME', '... except NameError:', '...     print("fresh")', '... else:',
                         '...     print("stale")', '>>> OWNNAME = 1', '>>> T.append("{id}")', '>>> raise ValueError("v{id}")']),
    ('bind_then_gotwant', ['>>> print("OWNNAME2" in dir())', '>>> OWNNAME2 = 1', '>>> T.append("{id}")', '>>> print("a")',
                           'False', 'b']),
]
# the want of switch_bind depends on the switch; it is written for switch B (name unbound -> False) so that the
# doctest passes under B and fails under A, and a leaked binding would make it fail under B
for _k, _b in BODIES:
    for _i, _ln in enumerate(_b):
        if _ln == '{sw_left}':
            _b[_i] = 'False'
KINDS = [k for k, _ in BODIES]
SWITCHED = ('switch', 'switch_bind', 'switch_requires', 'switch_requires_inline')


def required_cells(tier):
    return (['kind:' + k for k in KINDS] + ['history:same-object-twice', 'history:switch-AB', 'history:switch-BA', 'history:missing-submodule-then-package', 'history:echo-then-last-value', 'history:annotate-then-read', 'history:task-left-behind-then-await',
            'history:ordered-pair', 'history:random', 'history:fresh-object', 'module-dict-checks', 'baseline-children',
            'session-options:none', 'session-options:given', 'mode:native', 'mode:pytest'] +
            ['history:' + h for h, _ in PATCH_HISTORIES] +
            ['history:module-installs-underscore:2', 'history:module-installs-underscore:4',
             'history:module-installs-underscore:5'])


REQ_PACKAGES = ['json', 'email', 'xml', 'logging', 'http', 'urllib', 'concurrent', 'importlib', 'unittest', 'collections',
                'html', 'dbm', 'sqlite3', 'wsgiref', 'xmlrpc', 'multiprocessing', 'ctypes', 'asyncio', 'encodings', 'zoneinfo']


def gen(rng, uid):
    n = rng.randint(3, 6)
    src = ['T = []', 'MODGLOBAL = "orig"', 'MODANNOT: int = 0', '']
    ids = []
    kinds = [rng.choice(BODIES) for _ in range(n)]
    if not any(k in SWITCHED for k, _ in kinds) and rng.random() < 0.7:
        kinds[rng.randrange(n)] = rng.choice([b for b in BODIES if b[0] in SWITCHED])
    if rng.random() < 0.35:
        kinds = [k for k in kinds if not k[0].startswith('req_')]
        kinds += [b for b in BODIES if b[0] == 'req_missing_sub'] + [b for b in BODIES if b[0] == 'req_existing_pkg']
    elif rng.random() < 0.3:
        kinds += [b for b in BODIES if b[0] == 'echo_value'] + [b for b in BODIES if b[0] == 'reads_last_value']
    elif rng.random() < 0.3:
        kinds += [b for b in BODIES if b[0] == 'annotated_assign'] + [b for b in BODIES if b[0] == 'reads_annotations']
    elif rng.random() < 0.3:
        kinds += [b for b in BODIES if b[0] == 'spawns_task'] + [b for b in BODIES if b[0] == 'awaits_later']
    # (a package this worker process has not asked about yet, as long as the list lasts)
    try:
        pkg = REQ_PACKAGES[(int(uid.split('x')[1]) // 16) % len(REQ_PACKAGES)]
    except Exception:
        pkg = 'json'
    kinds = [(k, [ln.replace('{pkg}', pkg) for ln in body]) for k, body in kinds]
    for k, (kind, body) in enumerate(kinds):
        i = 's%sk%d' % (uid, k)
        src += ['def fn%d():' % k, '    """', '    Example:'] + \
               ['        ' + ln.replace('{id}', i) if ln else '' for ln in body] + ['    """', '']
        ids.append(('fn%d' % k, kind, i))
    return '\n'.join(src) + '\n', ids


def load(path, run_config=None):
    """run_config: the dict a front end hands to every doctest of one session (runner.doctest_module and the pytest
    plugin do `example.config.update(config)` with ONE config object, so the nested default_runtime_state dict is the
    same object in every doctest of the session)"""
    from xdoctest import core
    with warnings.catch_warnings(), contextlib.redirect_stdout(io.StringIO()):
        warnings.simplefilter('ignore')
        exs = list(core.parse_doctestables(path, style='google', analysis='static'))
    if run_config is not None:
        for e in exs:
            e.config.update(run_config)
    return exs


# default directive states as a front end builds them from --options (DoctestConfig._populate_from_cli): harmless for
# every body kind, but not empty
SESSION_OPTIONS = [None, None, {'IGNORE_WHITESPACE': True}, {'REPORT_CDIFF': False}, {'NORMALIZE_REPR': True, 'SKIP': False},
                   {'REQUIRES': []}, {'REQUIRES': [], 'IGNORE_WHITESPACE': True}]
# ('REQUIRES': [] stands for the empty set of unmet conditions that --options=+REQUIRES(<met condition>) builds)


def session_state(options):
    """a fresh default_runtime_state dict as a front end would build it"""
    d = dict(options)
    if 'REQUIRES' in d:
        d['REQUIRES'] = set(d['REQUIRES'])
    return d


def observe(e, sw, mode='native'):
    """run one doctest object under switch sw -> JSON-able observation.  mode: 'native' is what the runner sets,
    'pytest' is the default of a DocTest object (direct API use, plugin items)"""
    os.environ['XV_SW'] = sw
    e.mode = mode
    mod = sys.modules.get(e.modname)
    t0 = len(mod.T) if mod is not None and hasattr(mod, 'T') else 0
    try:
        with contextlib.redirect_stdout(io.StringIO()):
            s = e.run(on_error='return', verbose=0)
        if s['passed']:
            r = 'passed'
        elif s['skipped']:
            r = 'skipped'
        else:
            r = 'failed:' + type(s['exc_info'][1]).__name__
            # where the failure is reported: a re-run must not report the place of an earlier failure
            try:
                r += '@line-offset %r' % (e.failed_line_offset(),)
            except Exception as ex2:
                r += '@failed_line_offset raised %s' % type(ex2).__name__
    except BaseException as ex:
        r = 'RAISED:' + type(ex).__name__
    mod = sys.modules.get(e.modname)
    # (a doctest in which nothing runs never imports its module: no module, no events)
    delta = list(mod.T[t0:]) if mod is not None and hasattr(mod, 'T') else []
    try:
        logged = [v for v in e.logged_stdout.values()]
    except Exception:
        logged = None
    return [r, logged, delta]


# ---------------------------------------------------------------- baseline helper (fresh process, fork per observation)

def baseline_main(path, options_json='null', mode='native'):
    """python -m xv.props.c11 <path> [options] [mode]  -> JSON {callname|sw: observation}"""
    warnings.simplefilter('ignore')
    options = json.loads(options_json)
    exs = load(path)
    out = {}
    for e in exs:
        for sw in 'AB':
            r, w = os.pipe()
            pid = os.fork()
            if pid == 0:
                try:
                    os.close(r)
                    if options is not None:
                        e.config.update({'default_runtime_state': session_state(options)})
                    # a fresh object in a process in which nothing ran before
                    ob = observe(e, sw, mode)
                    with os.fdopen(w, 'w') as f:
                        json.dump(ob, f)
                finally:
                    os._exit(0)
            os.close(w)
            with os.fdopen(r) as f:
                data = f.read()
            os.waitpid(pid, 0)
            out['%s|%s' % (e.callname, sw)] = json.loads(data) if data else None
    sys.stdout.write(json.dumps(out))


def baseline(ctx, path, options=None, mode='native'):
    p = subprocess.run([sys.executable, '-m', 'xv.props.c11', path, json.dumps(options), mode], stdout=subprocess.PIPE, stderr=subprocess.PIPE,
                       text=True, timeout=300, cwd=ctx.tmp)
    if p.returncode != 0 or not p.stdout.strip():
        raise AssertionError('baseline helper failed: %s' % p.stderr[-2000:])
    return json.loads(p.stdout)


# ---------------------------------------------------------------- histories

def check_module(ctx, idx, seed):
    from xdoctest import directive
    rng = random.Random(seed)
    uid = '%dx%d' % (ctx.seed, idx)
    src, ids = gen(rng, uid)
    modname = 'im_%d_%d_%d_zz' % (ctx.seed, ctx.shard, idx)
    path = os.path.join(ctx.tmp, modname + '.py')
    with open(path, 'w') as f:
        f.write(src)
    kind_of = {n: k for n, k, i in ids}
    options = rng.choice(SESSION_OPTIONS)
    case = {'index': idx, 'case_seed': seed, 'session_options': options}
    ctx.cell('session-options:' + ('none' if options is None else 'given'))
    mode = rng.choice(['native', 'native', 'pytest'])
    case['mode'] = mode
    ctx.cell('mode:' + mode)
    try:
        base = baseline(ctx, path, options, mode)
        ctx.event('baseline_observations', len(base))
        ctx.cell('baseline-children', len(base))
        if any(v is None for v in base.values()):
            raise AssertionError('a baseline child died: %r' % base)
        pristine = copy.deepcopy(getattr(directive, 'DEFAULT_RUNTIME_STATE', None))
        exs = load(path)
        byname = {e.callname: e for e in exs}
        names = [n for n, _, _ in ids]
        # ---- the histories
        histories = []
        for n in names:
            histories.append(('same-object-twice', [(n, 'B', False), (n, 'B', False)]))
            if kind_of[n] in ('all_skipped', 'all_unmet', 'half_skipped', 'leave_skip', 'leave_req'):
                # bookkeeping that grows with every run of the same object shows only after several runs
                histories.append(('same-object-many', [(n, 'B', False)] * 5))
        for n in names:
            if kind_of[n] in SWITCHED:
                histories.append(('switch-AB', [(n, 'A', False), (n, 'B', False)]))
                histories.append(('switch-BA', [(n, 'B', False), (n, 'A', False), (n, 'B', False)]))
        spw = [n for n in names if kind_of[n] == 'spawns_task']
        awl = [n for n in names if kind_of[n] == 'awaits_later']
        if spw and awl:
            histories.append(('task-left-behind-then-await', [(spw[0], 'B', False), (awl[0], 'B', False), (spw[0], 'B', False),
                                                               (awl[0], 'B', False)]))
        ann = [n for n in names if kind_of[n] == 'annotated_assign']
        rann = [n for n in names if kind_of[n] == 'reads_annotations']
        if ann and rann:
            histories.append(('annotate-then-read', [(ann[0], 'B', False), (rann[0], 'B', False), (ann[0], 'B', False)]))
        echo = [n for n in names if kind_of[n] == 'echo_value']
        reads = [n for n in names if kind_of[n] == 'reads_last_value']
        if echo and reads:
            histories.append(('echo-then-last-value', [(echo[0], 'B', False), (reads[0], 'B', False)]))
        miss = [n for n in names if kind_of[n] == 'req_missing_sub']
        have = [n for n in names if kind_of[n] == 'req_existing_pkg']
        if miss and have:
            histories.append(('missing-submodule-then-package', [(miss[0], 'B', False), (have[0], 'B', False)]))
        pairs = [(a, b) for a in names for b in names if a != b]
        rng.shuffle(pairs)
        for a, b in pairs[:ctx.pick(8, 30)]:
            histories.append(('ordered-pair', [(a, rng.choice('AB'), False), (b, 'B', False)]))
        maxlen = ctx.pick(6, 20)
        for _ in range(ctx.pick(3, 12)):
            histories.append(('random', [(rng.choice(names), rng.choice('AB'), rng.random() < 0.3)
                                         for _ in range(rng.randint(3, maxlen))]))
        mod_snap = None
        for hname, hist in histories:
            # every history starts from freshly parsed objects; the module stays imported (that is the point).
            # One history = one session: every doctest in it gets the session's one config object
            run_config = None if options is None else {'default_runtime_state': session_state(options)}
            objs = {e.callname: e for e in load(path, run_config)}
            ok = True
            for step, (name, sw, fresh) in enumerate(hist):
                e = objs[name]
                if fresh:
                    e = [x for x in load(path, run_config) if x.callname == name][0]
                    ctx.cell('history:fresh-object')
                mod = sys.modules.get(modname)
                if mod is not None:
                    mod_snap = dict(mod.__dict__)
                ob = observe(e, sw, mode)
                ctx.evaluation()
                ctx.event('history_runs_compared')
                if step > 0:
                    ctx.nontrivial((src, repr(hist[:step + 1])))
                exp = base['%s|%s' % (name, sw)]
                diag = {}
                try:
                    diag['namespace_empty_after_run'] = not bool(e.global_namespace)
                    diag['default_state_pristine'] = (getattr(directive, 'DEFAULT_RUNTIME_STATE', None) == pristine)
                    if run_config is not None:
                        diag['session_default_state_unchanged'] = (run_config['default_runtime_state'] == session_state(options))
                except Exception:
                    pass
                if ob != exp:
                    what = []
                    for label, a, b in zip(('outcome', 'logged stdout', 'event-log delta'), ob, exp):
                        if a != b:
                            what.append('%s %r (alone: %r)' % (label, a, b))
                    ctx.violation('history-dependent', 'doctest %s (%s) under switch %s behaves differently after history %r: %s; '
                                  'diagnostics %r\n--- module ---\n%s' % (name, kind_of[name], sw, hist[:step], '; '.join(what),
                                                                           diag, src), case, history=hist[:step + 1],
                                  kind=kind_of[name], diagnostics=diag)
                    ok = False
                    break
                mod = sys.modules.get(modname)
                if mod is not None and mod_snap is not None:
                    now = dict(mod.__dict__)
                    changed = [k for k in set(now) | set(mod_snap) if k not in now or k not in mod_snap or now[k] is not mod_snap[k]]
                    ctx.cell('module-dict-checks')
                    if changed:
                        ctx.violation('module-rebound', 'running %s (%s) rebound the globals %r of the module under test'
                                      '\n--- module ---\n%s' % (name, kind_of[name], sorted(changed), src), case,
                                      history=hist[:step + 1])
                        ok = False
                        break
            if ok:
                ctx.cell('history:' + hname)
                for name, _, _ in hist:
                    ctx.cell('kind:' + kind_of[name])
        if ctx.shard == 0:
            ctx.sample({'module_source': src[:1500], 'baseline_alone': {k: v for k, v in list(base.items())[:4]},
                        'example_history': histories[-1][1]}, limit=1)
    finally:
        try:
            os.unlink(path)
        except OSError:
            pass
        sys.modules.pop(modname, None)


PATCH_MODULE = '''T = []
LIMIT = 1
NAMES = []
def label():
    return 'orig'
def scale(x):
    return x * LIMIT
def reader():
    """
    Example:
        >>> T.append("reader")
        >>> print(LIMIT, scale(2), label(), NAMES)
    """
def patcher():
    """
    Example:
        >>> import sys
        >>> T.append("patcher")
        >>> me = sys.modules[__name__]
        >>> me.LIMIT = me.LIMIT * 10
        >>> me.label = lambda: 'patched'
        >>> me.NAMES.append('p')
    """
'''
PATCH_HISTORIES = [
    ('patched-between-runs-of-one-object', [('reader', False), ('patcher', False), ('reader', False)]),
    ('patched-then-fresh-object', [('reader', False), ('patcher', False), ('reader', True)]),
    ('patched-first', [('patcher', False), ('reader', False), ('patcher', False), ('reader', False)]),
]


def probe_module_patch(ctx):
    """the module under test is changed on purpose between two runs (through the module object, the one documented way
    for a doctest to do that): what a doctest then finds under the module's names is the module as it is now, the same
    for an object that already ran and for a freshly parsed one"""
    modname = 'ip_%d_%d_zz' % (ctx.seed, ctx.shard)
    path = os.path.join(ctx.tmp, modname + '.py')
    with open(path, 'w') as f:
        f.write(PATCH_MODULE)
    try:
        for hname, hist in PATCH_HISTORIES:
            for mode in ('native', 'pytest'):
                sys.modules.pop(modname, None)
                objs = {e.callname: e for e in load(path)}
                ok = True
                for step, (name, fresh) in enumerate(hist):
                    e = objs[name]
                    if fresh:
                        e = [x for x in load(path) if x.callname == name][0]
                    ob = observe(e, 'B', mode)
                    ctx.evaluation()
                    ctx.event('history_runs_compared')
                    mod = sys.modules[modname]
                    if name == 'reader':
                        exp = '%s %s %s %s\n' % (mod.LIMIT, 2 * mod.LIMIT, mod.label(), mod.NAMES)
                        got = ''.join(ob[1] or [])
                        if ob[0] != 'passed' or got != exp:
                            ctx.violation('history-dependent', 'the module under test was changed through its module object '
                                          'between runs (history %r, mode %s): the reader must print the module as it is now '
                                          '%r, it printed %r (outcome %s)\n--- module ---\n%s' % (
                                              hist[:step + 1], mode, exp, got, ob[0], PATCH_MODULE),
                                          {'probe': 'module-patch'}, history=hist[:step + 1])
                            ok = False
                            break
                if ok:
                    ctx.cell('history:' + hname)
                    ctx.nontrivial((hname, mode))
    finally:
        try:
            os.unlink(path)
        except OSError:
            pass
        sys.modules.pop(modname, None)


UNDERSCORE_MODULE = '''import builtins
builtins._ = lambda s: 'T:' + s        # what gettext.install() does
T = []
def first():
    """
    Example:
        >>> T.append("first")
        >>> print(_('a'))
        T:a
    """
def echo():
    """
    Example:
        >>> T.append("echo")
        >>> if 1:
        ...     6 * 7
        42
    """
def second():
    """
    Example:
        >>> T.append("second")
        >>> print(_('b'))
        T:b
    """
def raises_expected():
    """
    Example:
        >>> T.append("raises_expected")
        >>> for k in [1]:
        ...     int("zz")
        Traceback (most recent call last):
        ValueError: invalid literal for int() with base 10: 'zz'
        >>> T.append("after the expected exception")
    """
def raises_hidden():
    """
    Example:
        >>> T.append("raises_hidden")
        >>> for k in [1, 2]:
        ...     print(k if k == 1 else int("zz"))
        1
        >>> T.append("never reached")
    """
'''
UNDERSCORE_EXPECT = {'first': 'passed', 'echo': 'passed', 'second': 'passed', 'raises_expected': 'passed',
                     'raises_hidden': 'failed:ValueError'}


def probe_module_installs_underscore(ctx):
    """the module under test installs a translation function as builtins._ when it is imported (gettext.install): every
    doctest of the module finds it, whichever ran before, also after a doctest whose echoed value went through
    sys.displayhook"""
    import builtins
    modname = 'iu_%d_%d_zz' % (ctx.seed, ctx.shard)
    path = os.path.join(ctx.tmp, modname + '.py')
    with open(path, 'w') as f:
        f.write(UNDERSCORE_MODULE)
    had = getattr(builtins, '_', None)
    try:
        for hist in (['first', 'second'], ['first', 'echo', 'second', 'first'], ['echo', 'first', 'echo', 'second'],
                     ['first', 'raises_expected', 'raises_hidden', 'second', 'raises_expected']):
            for mode in ('native', 'pytest'):
                sys.modules.pop(modname, None)
                if hasattr(builtins, '_'):
                    del builtins._
                objs = {e.callname: e for e in load(path)}
                ok = True
                for step, name in enumerate(hist):
                    ob = observe(objs[name], 'B', mode)
                    ctx.evaluation()
                    ctx.event('history_runs_compared')
                    if not ob[0].startswith(UNDERSCORE_EXPECT[name]) or (
                            name == 'raises_expected' and ob[2] != ['raises_expected', 'after the expected exception']) or (
                            name == 'raises_hidden' and ob[2] != ['raises_hidden']):
                        ctx.violation('history-dependent', 'the module under test installs builtins._ when it is imported; doctest '
                                      '%s must give %s whatever ran before it, after %r (mode %s) it gives %s, logged output %r, '
                                      'event log %r\n--- module ---\n%s' % (name, UNDERSCORE_EXPECT[name], hist[:step], mode, ob[0],
                                                                             ob[1], ob[2], UNDERSCORE_MODULE),
                                      {'probe': 'module-installs-underscore'}, history=hist[:step + 1])
                        ok = False
                        break
                if ok:
                    ctx.cell('history:module-installs-underscore:%d' % len(hist))
                    ctx.nontrivial((tuple(hist), mode))
    finally:
        if had is None:
            if hasattr(builtins, '_'):
                del builtins._
        else:
            builtins._ = had
        try:
            os.unlink(path)
        except OSError:
            pass
        sys.modules.pop(modname, None)


def run_shard(ctx):
    warnings.simplefilter('ignore')
    n = ctx.pick(64, 800)
    for idx in ctx.my_indices(n):
        check_module(ctx, idx, ctx.case_seed(idx))
    if ctx.shard == 6 % ctx.nshards:
        probe_module_patch(ctx)
    if ctx.shard == 7 % ctx.nshards:
        probe_module_installs_underscore(ctx)


def replay(case, ctx):
    warnings.simplefilter('ignore')
    if case.get('probe') == 'module-patch':
        probe_module_patch(ctx)
        return
    if case.get('probe') == 'module-installs-underscore':
        probe_module_installs_underscore(ctx)
        return
    check_module(ctx, case['index'], case['case_seed'])


def classify(v):
    return None


LEVEL_TEXT = ("Exploration over histories: each run inside a directed or random history (same object twice, switch A then B, "
              "ordered pairs, random sequences with fresh and re-used objects) is compared with the same doctest run alone in "
              "a fresh process; the module's __dict__ is compared object by object at every quiescent point.  Held = no "
              "history-dependent observation among the runs produced.")
LEVEL_NOTE = ("Trusted: fork() of a pristine helper process as 'fresh process'; the environment switch as the only legitimate "
              "source of different behaviour between two runs of the same doctest.")
TECHNIQUE = "runtime monitor: per-run observations (outcome, exception type, logged stdout, event-log delta) vs fresh-process baseline over directed+random run histories; module __dict__ identity check at quiescent points"


if __name__ == '__main__':
    baseline_main(*sys.argv[1:4])

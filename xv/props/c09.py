"""
C09 - Every failure is recorded and rendered; one bad doctest never aborts the run.

Fault enumeration: failure kind x position of the failing doctest in its module x shape of the
doctest around the failing part x verbosity 0..3 x runner {DocTest.run, runner.doctest_module,
`python -m xdoctest` subprocess}.
Monitors: the summary returned by run(on_error='return'), the lines of repr_failure(), the
run_summary of the module run, exit status and final summary line of the CLI.
"""
import io
import os
import re
import ast
import sys
import random
import warnings
import itertools
import contextlib
import subprocess

PROPERTY = 'C09'
LEVEL = 'fault_enumeration'
RULE = ("failure kinds {wrong output, exception in the doctest, in a module function it calls, in a helper defined by an "
        "earlier part shorter / longer than the failing part, compile-only errors (return / break outside, duplicate "
        "argument), a __repr__ that raises, a failing part that replaced (and closed) sys.stdout, traceback want on non-raising code, NameError, assertion, malformed directive "
        "inline / block / noticed only when the part's directives are extracted at run time, wrong output on the second want, exception inside a coroutine, import error of the module under "
        "test} x position of the failing doctest {first, middle, last} x shape {bare, after wants, after multi-line "
        "statements, after helper definitions} x verbosity 0..3, every combination once per tier pass (quick: one context, "
        "thorough: 8), each through DocTest.run and runner.doctest_module; a sample through the CLI.  All cases are "
        "non-trivial; distinct by module source hash")
ASSUMPTIONS = [
    "SystemExit / KeyboardInterrupt are not faults of this property (C12 covers them)",
    "the failing line is identified by a unique marker; for code called from the doctest it is the calling doctest line",
    "a construct accepted by ast.parse but rejected by compile() (finding F4, repaired) is a fault like any other: the "
    "run returns failed, the report names SyntaxError and the line",
]
NSHARDS = {'quick': 16, 'thorough': 16}
RULE += (' Fault kinds added during the build: a raising __repr__ with printed output, run-time exceptions with a lineno of their own, exceptions under IGNORE_WANT, a doctest that closes the stream its output is captured in, several failing doctests that raise one shared exception object (a module-level sentinel) with every report rendered after the last doctest ran.')

KINDS = {
    'gotwant': (['>>> print("good")', 'FAILMARK bad'], 'GotWantException'),
    # the wrong want holds nothing but <BLANKLINE> markers (it is empty once normalised); the marker is on the source
    # line, the offending want is the line below it
    'gotwant_blankline': (['>>> print("good FAILMARK")', '<BLANKLINE>'], 'GotWantException'),
    'gotwant_blankline_value': (['>>> gv = 5', '>>> gv  # FAILMARK', '<BLANKLINE>', '<BLANKLINE>'], 'GotWantException'),
    'gotwant_second': (['>>> print("ok")', 'ok', '>>> print("good")', 'FAILMARK bad'], 'GotWantException'),
    # texts of several lines are reported as a diff; the diffed lines hold characters with a meaning for string formatting
    'gotwant_diff_percent': (['>>> print("10% unpack", "50% build {x}", "90% test %s", "100% done", sep=chr(10))',
                              'FAILMARK 10% unpack', '50% build {x}', '90% test %s', '100%'], 'GotWantException'),
    'gotwant_diff_braces': (['>>> print("{0} a", "{} b", "{name!r:>{w}} c", "d", sep=chr(10))', 'FAILMARK {0} a', '{} b',
                             '{name!r:>{w}} c', 'e'], 'GotWantException'),
    'raise': (['>>> raise ValueError("FAILMARK")'], 'ValueError'),
    'called_mod': (['>>> modfunc_bad()  # FAILMARK'], 'ZeroDivisionError'),
    'helper_short': (['>>> def hp():', '...     raise KeyError("k")', '>>> print("sep")', 'sep', '>>> zz = 1', '>>> yy = 2',
                      '>>> hp()  # FAILMARK'], 'KeyError'),
    'helper_long': (['>>> def hp():', '...     a = 1', '...     b = 2', '...     c = 3', '...     raise KeyError("k")',
                     '>>> print("sep")', 'sep', '>>> hp()  # FAILMARK'], 'KeyError'),
    'compile_return': (['>>> return 5  # FAILMARK'], 'SyntaxError'),
    'compile_break': (['>>> break  # FAILMARK'], 'SyntaxError'),
    'compile_dupargs': (['>>> def dd(a, a): pass  # FAILMARK'], 'SyntaxError'),
    'compile_yield': (['>>> yield 5  # FAILMARK'], 'SyntaxError'),
    'compile_nonlocal': (['>>> def nl():', '...     xx = 1', '...     nonlocal xx  # FAILMARK'], 'SyntaxError'),
    'compile_await_in_def': (['>>> def aw():', '...     return 1', '>>> def aw2():', '...     await aw()  # FAILMARK'],
                             'SyntaxError'),
    'bad_repr': (['>>> class R:', '...     def __repr__(self):', '...         raise RuntimeError("norepr")',
                  '>>> R()  # FAILMARK', 'something'], None),
    # the raising __repr__ sits at line 2 / 3 / 4 of an earlier part; the failing part has 1 exec line and 1..3 want lines
    'bad_repr_compact': (['>>> class R:', '...     def __repr__(self): raise RuntimeError("norepr")',
                          '>>> R()  # FAILMARK', 'something'], None),
    'bad_repr_want3': (['>>> class R:', '...     def __repr__(self):', '...         raise RuntimeError("norepr")',
                        '>>> R()  # FAILMARK', 'something', 'second line', 'third line'], None),
    'bad_repr_line4': (['>>> x0 = 1', '>>> class R:', '...     def __repr__(self):', '...         raise RuntimeError("norepr")',
                        '', 'prose splits the parts', '', '>>> R()  # FAILMARK', 'something', 'second line', 'third line'], None),
    # the class with the raising __repr__ lives in the module under test; output of earlier want-less parts is pending
    'bad_repr_modclass': (['>>> ModBadRepr()  # FAILMARK', 'something'], None),
    'bad_repr_modclass_pending_output': (['>>> print("unmatched output")', '', 'prose in between', '',
                                          '>>> ModBadRepr()  # FAILMARK', 'something'], None),
    'bad_repr_pending_output': (['>>> class R:', '...     def __repr__(self):', '...         raise RuntimeError("norepr")',
                                 '>>> print("unmatched output")', '>>> R()  # FAILMARK', 'something'], None),
    # the statement also printed something that does not match the want: the value is rendered as the second candidate
    # (finding F46)
    'bad_repr_with_output': (['>>> class R:', '...     def __repr__(self):', '...         raise RuntimeError("norepr")',
                              '>>> x0 = 1', '>>> x1 = 2', '>>> (print("printed"), R())[1]  # FAILMARK', 'something'], None),
    'bad_repr_with_output_first_part': (['>>> class R:', '...     def __repr__(self):',
                                         '...         raise RuntimeError("norepr")', '', 'prose', '',
                                         '>>> (print("printed"), R())[1]  # FAILMARK', 'something', 'else'], None),
    # exceptions raised at run time that carry a line number of their own (it refers to some other text)
    'runtime_syntax': (['>>> rs0 = 1', '>>> rs1 = 2', '>>> compile("x = = 1", "<s>", "exec")  # FAILMARK'], 'SyntaxError'),
    'runtime_lineno_attr': (['>>> import json', '>>> rl0 = 1', '>>> json.loads("[1," + chr(10) * 7 + " oops]")  # FAILMARK'],
                            'JSONDecodeError'),
    # wants are not compared (IGNORE_WANT inline / for the rest of the doctest): an exception still is a failure
    'raise_ignore_want_inline': (['>>> iw0 = 1', '>>> int("FAILMARK")  # xdoctest: +IGNORE_WANT', '12'], 'ValueError'),
    'raise_ignore_want_block': (['>>> # xdoctest: +IGNORE_WANT', '>>> print("anything")', 'something else',
                                 '>>> int("FAILMARK")', '12', '>>> iw1 = 1'], 'ValueError'),
    'bad_directive': (['>>> x = 1  # xdoctest: +REQUIRES(notatag) FAILMARK'], 'Exception'),
    'bad_directive_block': (['>>> # xdoctest: +REQUIRES(notatag) FAILMARK', '>>> x = 1'], 'Exception'),
    # unbalanced parentheses in a directive comment that the parser does not look at (extra blanks after the prompt):
    # the directive is extracted lazily, inside run()
    'bad_directive_lazy': (['>>>   # xdoctest: +REQUIRES(module:zz FAILMARK', '>>> x = 1'], 'Exception'),
    # the failing part replaced sys.stdout by a stream of its own, closed it, and raised before putting it back
    'stdout_closed': (['>>> import sys, io', '>>> fh_zz = io.StringIO()',
                       '>>> sys.stdout = fh_zz; fh_zz.close(); raise ValueError("FAILMARK")'], 'ValueError'),
    # the doctest closes the very stream its output is captured in: the error is raised when the part is left, by no
    # line of the doctest, and is a failure of that part (placed at its first line) (finding F40)
    'capture_closed': (['>>> print("before")', 'before', '>>> import sys  # FAILMARK', '>>> sys.stdout.close()', '>>> x = 1'],
                       'ValueError'),
    'stdout_replaced': (['>>> import sys, io', '>>> sys.stdout = io.StringIO(); raise ValueError("FAILMARK")'], 'ValueError'),
    'nameerror': (['>>> undefined_name_zz  # FAILMARK'], 'NameError'),
    'assert': (['>>> assert 1 == 2, "FAILMARK"'], 'AssertionError'),
    'traceback_want_noraise': (['>>> x = 1', 'Traceback (most recent call last): FAILMARK', 'ValueError: nope'],
                               'GotWantException'),
    'coroutine': (['>>> import asyncio', '>>> async def co():', '...     await asyncio.sleep(0)', '...     raise OSError("c")',
                   '>>> await co()  # FAILMARK'], 'OSError'),
    'multiline_raise': (['>>> zz = [1,', '...     int("FAILMARK"),', '...     3]'], 'ValueError'),
    'try_finally': (['>>> try:', '...     x = 1', '...     raise ValueError("FAILMARK")', '... finally:', '...     y = None',
                     '...     z = None'], 'ValueError'),
    'try_except_other': (['>>> try:', '...     raise ZeroDivisionError("FAILMARK")', '... except KeyError:', '...     pass'],
                         'ZeroDivisionError'),
    'comprehension': (['>>> zz = [', '...     int(v)  # FAILMARK', '...     for v in ["1", "x"]', '... ]'], 'ValueError'),
    'with_raise': (['>>> import contextlib', '>>> with contextlib.suppress(KeyError):', '...     a = 1',
                    '...     raise ValueError("FAILMARK")'], 'ValueError'),
}
WANT_BELOW_MARKER = ('gotwant_blankline', 'gotwant_blankline_value')
KIND_NAMES = sorted(KINDS) + ['import_error']
POSITIONS = ['first', 'middle', 'last']
SHAPES = ['bare', 'wants', 'multiline', 'helpers']
VERBOSITIES = [0, 1, 2, 3]


def required_cells(tier):
    return (['kind:' + k for k in KIND_NAMES] +
            ['pos:' + p for p in POSITIONS] + ['shape:' + s for s in SHAPES] + ['verbose:%d' % v for v in VERBOSITIES] +
            ['runner:DocTest.run', 'runner:doctest_module', 'runner:cli', 'rendered', 'compile-only-fault', 'kind:shared_instance',
             'rendered-after-all-ran', 'traceback-own-frame-first'])


def shape_lines(rng, shape):
    L = []
    if shape == 'bare':
        return L
    for j in range(rng.randint(1, 3)):
        if shape == 'wants':
            L += ['>>> print("w%d")' % j, 'w%d' % j]
        elif shape == 'multiline':
            L += ['>>> q%d = [1,' % j, '...    2,', '...    3]']
        elif shape == 'helpers':
            L += rng.choice([['>>> def h%d():' % j, '...     return 1'],
                             ['>>> def h%d():' % j, '...     a = 1', '...     b = 2', '...     c = 3', '...     d = 4',
                              '...     return a']])
    return L


def gen_module(rng, uid, kind, pos, shape):
    out = ['def modfunc_bad():', '    return 1/0', '', 'class ModBadRepr:', '    def __repr__(self):',
           '        raise RuntimeError("norepr")', '']
    expect = []      # (callname, kind or None, marker)
    n = {'first': rng.randint(2, 3), 'middle': 3, 'last': rng.randint(2, 3)}[pos]
    failing = {'first': 0, 'middle': 1, 'last': n - 1}[pos]
    for k in range(n):
        L = []
        kd = None
        marker = 'FAIL%sx%d' % (uid, k)
        if k == failing:
            kd = kind
            if kind != 'bad_directive_lazy':
                # (the lazily extracted directive must open the doctest: anywhere else the parser reads it first,
                # the docstring is rejected at collection and C14 applies instead)
                L += shape_lines(rng, shape)
            if kind != 'import_error':
                L += [ln.replace('FAILMARK', marker) for ln in KINDS[kind][0]]
            else:
                L += ['>>> x = 1  # %s' % marker]
        else:
            L += rng.choice([['>>> a = 1'], ['>>> print("w")', 'w'], ['>>> def h():', '...     return 1']])
        for j in range(rng.randint(0, 2)):
            L += ['>>> c%d = %d' % (j, j)]
        out += ['def fn%d():' % k, '    """', '    Example:'] + ['        ' + ln for ln in L] + ['    """', '']
        expect.append(('fn%d' % k, kd, marker))
    if kind == 'import_error':
        out += ['raise ImportError("module under test is broken")', '']
    return '\n'.join(out) + '\n', expect


def failing_source_is_compile_only(kind):
    if kind not in KINDS:
        return False
    src = '\n'.join(ln[4:] for ln in KINDS[kind][0] if ln.startswith(('>>> ', '... ')))
    try:
        ast.parse(src)
    except SyntaxError:
        return False
    try:
        compile(src, '<x>', 'exec')
    except SyntaxError:
        return True
    return False


LINE_RE = re.compile(r'File "([^"]+)", line (\d+),')


def check_case(ctx, idx, kind, pos, shape, verbose, ctxno, cli=False):
    from xdoctest import core, runner
    rng = random.Random(ctx.case_seed(idx * 131 + ctxno))
    uid = '%dx%d' % (idx, ctxno)
    src, expect = gen_module(rng, uid, kind, pos, shape)
    modname = 'emod_%d_%d_%d_%d_zz' % (ctx.seed, ctx.shard, idx, ctxno)
    path = os.path.join(ctx.tmp, modname + '.py')
    with open(path, 'w') as f:
        f.write(src)
    flines = src.split('\n')
    compile_only = failing_source_is_compile_only(kind)
    case = {'index': idx, 'kind': kind, 'pos': pos, 'shape': shape, 'verbose': verbose, 'ctxno': ctxno, 'cli': cli,
            'compile_only': compile_only}
    ctx.nontrivial(src)

    def bad(mech, msg, **kw):
        ctx.violation(mech, '%s\n  fault=%s pos=%s shape=%s verbose=%d\n--- module ---\n%s' % (
            msg, kind, pos, shape, verbose, src), case, **kw)

    ok = True
    try:
        # ------------------------------------------------ runner 1: DocTest.run
        with warnings.catch_warnings(record=True), contextlib.redirect_stdout(io.StringIO()):
            warnings.simplefilter('always')
            exs = list(core.parse_doctestables(path, style='google', analysis='static'))
        if [e.callname for e in exs] != [cn for cn, _, _ in expect]:
            bad('collection', 'collected %r, expected %r' % ([e.callname for e in exs], [cn for cn, _, _ in expect]))
            return
        rendered_first = []
        for e, (cn, kd, marker) in zip(exs, expect):
            ctx.evaluation()
            e.mode = 'native'
            buf = io.StringIO()
            try:
                with contextlib.redirect_stdout(buf):
                    s = e.run(on_error='return', verbose=verbose)
            except BaseException as ex:
                bad('run-raised', 'DocTest.run(on_error="return") raised %s: %r instead of returning a failed summary' % (
                    type(ex).__name__, ex), exc=type(ex).__name__)
                ok = False
                continue
            ctx.event('doctest_runs')
            if kind == 'import_error':
                exp_fail = True
            else:
                exp_fail = kd is not None
            if not exp_fail:
                if not s['passed']:
                    bad('neighbour-failed', 'healthy doctest %s reports %r' % (cn, s['exc_info']))
                    ok = False
                continue
            if not s['failed']:
                bad('not-failed', 'doctest %s with fault %s reports passed=%s skipped=%s' % (cn, kind, s['passed'], s['skipped']))
                ok = False
                continue
            try:
                with contextlib.redirect_stdout(io.StringIO()):
                    lines = e.repr_failure()
                rep = '\n'.join(lines)
            except BaseException as ex:
                bad('render-raised', 'repr_failure() raised %s: %r' % (type(ex).__name__, ex), exc=type(ex).__name__)
                ok = False
                continue
            ctx.event('failure_reports_rendered')
            tn = 'ImportError' if kind == 'import_error' else KINDS[kind][1]
            if kind == 'import_error':
                if 'REASON: ' not in rep:
                    bad('render-no-type', 'the report of an import failure names no exception type:\n%s' % rep[:600])
                    ok = False
                continue
            if tn and ('REASON: ' + tn) not in rep:
                bad('render-no-type', 'the report does not name the exception type %s: first line %r' % (tn, lines[:1]))
                ok = False
                continue
            if kd is not None:
                if marker not in rep:
                    bad('render-no-line', 'the report does not show the failing source line (%s):\n%s' % (marker, rep[:1500]))
                    ok = False
                    continue
                m = None
                for ln in lines:
                    mm = LINE_RE.search(ln)
                    if mm and mm.group(1) == path:
                        m = mm
                        break
                if m is None:
                    bad('render-no-line', 'the report has no File "...", line N entry for the module:\n%s' % rep[:800])
                    ok = False
                    continue
                n = int(m.group(2))
                if kind in WANT_BELOW_MARKER and 2 <= n <= len(flines) and marker in flines[n - 2]:
                    pass        # the reported line is the first line of the offending want, right under the marked source
                elif not (1 <= n <= len(flines)) or marker not in flines[n - 1]:
                    bad('render-wrong-line', 'the report points at line %d (%r), the failing line (%s) is line %d' % (
                        n, flines[n - 1] if 1 <= n <= len(flines) else None, marker,
                        1 + next(i for i, x in enumerate(flines) if marker in x)))
                    ok = False
                    continue
                ctx.cell('rendered')
                rendered_first.append((e, cn, tn, marker, n, rep))
        # the same reports once more, now that the remaining doctests of the module have run: type, marker and line
        # are still there (a report may be asked for at the end of a session)
        for e, cn, tn, marker, n, rep in rendered_first:
            try:
                with contextlib.redirect_stdout(io.StringIO()):
                    lines2 = e.repr_failure()
                rep2 = '\n'.join(lines2)
            except BaseException as ex:
                bad('render-raised', 'repr_failure() of %s, asked for a second time after the other doctests ran, raised '
                    '%s: %r' % (cn, type(ex).__name__, ex), exc=type(ex).__name__)
                ok = False
                continue
            ctx.event('failure_reports_rendered_again')
            if rep2 == rep:
                ctx.event('second_rendering_identical')
            n2 = None
            for ln in lines2:
                mm = LINE_RE.search(ln)
                if mm and mm.group(1) == path:
                    n2 = int(mm.group(2))
                    break
            if (tn and ('REASON: ' + tn) not in rep2) or marker not in rep2 or n2 != n:
                bad('render-unstable', 'the report of %s rendered after the other doctests ran no longer names the type %s / '
                    'the failing line %d (%s); it points at %r:\n%s' % (cn, tn, n, marker, n2, rep2[:1200]))
                ok = False
        # ------------------------------------------------ runner 2: runner.doctest_module
        ctx.evaluation()
        buf = io.StringIO()
        try:
            with contextlib.redirect_stdout(buf), contextlib.redirect_stderr(io.StringIO()):
                rs = runner.doctest_module(path, 'all', argv=[''], verbose=verbose, style='google')
        except BaseException as ex:
            bad('module-run-raised', 'runner.doctest_module(..., "all") was aborted by %s: %r; the remaining doctests were '
                'not run' % (type(ex).__name__, ex), exc=type(ex).__name__)
            ok = False
            rs = None
        if rs is not None:
            ctx.event('module_runs')
            nfail = len(expect) if kind == 'import_error' else 1
            if rs.get('n_total') != len(expect) or rs.get('n_failed') != nfail or \
                    rs.get('n_passed') != len(expect) - nfail:
                bad('module-tally', 'module run reports total=%r failed=%r passed=%r, expected %d/%d/%d' % (
                    rs.get('n_total'), rs.get('n_failed'), rs.get('n_passed'), len(expect), nfail, len(expect) - nfail))
                ok = False
            else:
                names = sorted(x.callname for x in rs['failed'])
                expn = sorted(cn for cn, kd, _ in expect if kd is not None or kind == 'import_error')
                if names != expn:
                    bad('module-tally', 'failed list %r, expected %r' % (names, expn))
                    ok = False
            if verbose >= 1 and '===' not in buf.getvalue():
                bad('module-no-summary', 'no final summary line was printed at verbose=%d' % verbose)
                ok = False
        # ------------------------------------------------ runner 3: CLI
        if cli:
            ctx.evaluation()
            p = subprocess.run([sys.executable, '-m', 'xdoctest', path, 'all', '--style=google', '--verbose=%d' % verbose],
                               cwd=ctx.tmp, stdout=subprocess.PIPE, stderr=subprocess.STDOUT, text=True, timeout=180)
            ctx.event('cli_runs')
            summary = [ln for ln in p.stdout.splitlines() if ln.startswith('===') and 'failed' in ln]
            if p.returncode != 1 or (verbose >= 1 and not summary):
                bad('cli-aborted', '`python -m xdoctest <mod> all` exits %d %s its final summary line:\n%s' % (
                    p.returncode, 'with' if summary else 'without', p.stdout[-1200:]), exit=p.returncode,
                    traceback=('Traceback (most recent call last)' in p.stdout))
                ok = False
            else:
                ctx.cell('runner:cli')
        if ok:
            ctx.cell('kind:' + kind)
            ctx.cell('pos:' + pos)
            ctx.cell('shape:' + shape)
            ctx.cell('verbose:%d' % verbose)
            ctx.cell('runner:DocTest.run')
            ctx.cell('runner:doctest_module')
            if ctx.shard == 0:
                ctx.sample({'fault': kind, 'pos': pos, 'shape': shape, 'verbose': verbose, 'module_source': src[:1200],
                            'module_run': {k: v for k, v in (rs or {}).items() if k.startswith('n_')}}, limit=2)
        if ok and compile_only:
            ctx.cell('compile-only-fault')
    finally:
        try:
            os.unlink(path)
        except OSError:
            pass
        sys.modules.pop(modname, None)


def check_shared_instance(ctx, idx, verbose):
    """Two failing doctests of one process raise the very same exception object (a module-level sentinel raised by a
    helper of the module under test); every report is rendered only after all doctests have run (seeded change S09m)."""
    from xdoctest import core
    rng = random.Random(ctx.case_seed(idx * 977 + 5))
    uid = 'sh%dx%d' % (idx, ctx.seed)
    modname = 'eshr_%d_%d_%d_zz' % (ctx.seed, ctx.shard, idx)
    path = os.path.join(ctx.tmp, modname + '.py')
    out = ['class Invalid(ValueError):', '    pass', '', '_INVALID = Invalid("input must not be negative")', '',
           'def validate(x):', '    if x < 0:', '        raise _INVALID', '    return x', '']
    n = rng.randint(3, 5)
    failing = sorted(rng.sample(range(n), rng.randint(2, min(3, n))))
    expect = []
    for k in range(n):
        marker = 'FAIL%sx%d' % (uid, k)
        L = shape_lines(rng, rng.choice(SHAPES))
        if k in failing:
            L += ['>>> validate(-%d)  # %s' % (k + 1, marker), '>>> print("not reached")']
        else:
            L += ['>>> print(validate(%d))' % k, '%d' % k]
        out += ['def fn%d():' % k, '    """', '    Example:'] + ['        ' + ln for ln in L] + ['    """', '']
        expect.append(('fn%d' % k, k in failing, marker))
    src = '\n'.join(out) + '\n'
    flines = src.split('\n')
    with open(path, 'w') as f:
        f.write(src)
    case = {'index': idx, 'kind': 'shared_instance', 'verbose': verbose}
    ctx.nontrivial(src)

    def bad(mech, msg, **kw):
        ctx.violation(mech, '%s\n  fault=shared_instance verbose=%d\n--- module ---\n%s' % (msg, verbose, src), case, **kw)

    ok = True
    try:
        with warnings.catch_warnings(record=True), contextlib.redirect_stdout(io.StringIO()):
            warnings.simplefilter('always')
            exs = list(core.parse_doctestables(path, style='google', analysis='static'))
        if [e.callname for e in exs] != [cn for cn, _, _ in expect]:
            bad('collection', 'collected %r' % ([e.callname for e in exs],))
            return
        sums = []
        for e in exs:
            ctx.evaluation()
            e.mode = 'native'
            try:
                with contextlib.redirect_stdout(io.StringIO()):
                    sums.append(e.run(on_error='return', verbose=verbose))
            except BaseException as ex:
                bad('run-raised', 'DocTest.run(on_error="return") raised %s: %r' % (type(ex).__name__, ex),
                    exc=type(ex).__name__)
                return
            ctx.event('doctest_runs')
        # every report is rendered after the last doctest has run
        for e, s, (cn, fails, marker) in zip(exs, sums, expect):
            if not fails:
                if not s['passed']:
                    bad('neighbour-failed', 'healthy doctest %s reports %r' % (cn, s['exc_info']))
                    ok = False
                continue
            if not s['failed']:
                bad('not-failed', 'doctest %s raising the shared exception reports passed=%s' % (cn, s['passed']))
                ok = False
                continue
            try:
                with contextlib.redirect_stdout(io.StringIO()):
                    lines = e.repr_failure()
                rep = '\n'.join(lines)
            except BaseException as ex:
                bad('render-raised', 'repr_failure() raised %s: %r' % (type(ex).__name__, ex), exc=type(ex).__name__)
                ok = False
                continue
            ctx.event('failure_reports_rendered')
            if 'REASON: Invalid' not in rep:
                bad('render-no-type', 'the report does not name the exception type Invalid: first line %r' % (lines[:1],))
                ok = False
                continue
            m = None
            for ln in lines:
                mm = LINE_RE.search(ln)
                if mm and mm.group(1) == path:
                    m = mm
                    break
            if marker not in rep or m is None:
                bad('render-no-line', 'the report of %s does not show its failing source line (%s):\n%s' % (
                    cn, marker, rep[:1500]))
                ok = False
                continue
            ln_no = int(m.group(2))
            if not (1 <= ln_no <= len(flines)) or marker not in flines[ln_no - 1]:
                bad('render-wrong-line', 'the report of %s, rendered after the other doctests ran, points at line %d (%r); '
                    'its failing line (%s) is line %d' % (
                        cn, ln_no, flines[ln_no - 1] if 1 <= ln_no <= len(flines) else None, marker,
                        1 + next(i for i, x in enumerate(flines) if marker in x)))
                ok = False
                continue
            # the traceback section: its first doctest frame is the frame of this doctest (frames of the doctests that
            # raised the same object earlier may follow: CPython chains them behind), none belongs to a doctest that
            # ran later
            sec = []
            on = False
            for ln in lines:
                for sub in str(ln).split('\n'):
                    if sub.strip().endswith('DOCTEST TRACEBACK'):
                        on = True
                    elif sub.strip().endswith('DOCTEST REPRODUCTION'):
                        on = False
                    elif on:
                        sec.append(sub)
            frames = re.findall(r'File "<doctest:[^"]*::(fn\d+):\d+>"', '\n'.join(sec))
            if not frames:
                ctx.event('shared_instance_no_traceback_section')
                continue
            ctx.event('traceback_sections_read')
            later = [cn2 for cn2, _, _ in expect[expect.index((cn, fails, marker)) + 1:]]
            if frames[0] != cn or any(f in later for f in frames):
                bad('render-foreign-traceback', 'the traceback section of the report of %s, rendered after the other doctests '
                    'ran, lists the doctest frames %r: it describes a failure of another doctest\n%s' % (
                        cn, frames, '\n'.join(sec)[:1500]))
                ok = False
                continue
            ctx.cell('traceback-own-frame-first')
        if ok:
            ctx.cell('kind:shared_instance')
            ctx.cell('rendered-after-all-ran')
    finally:
        try:
            os.unlink(path)
        except OSError:
            pass
        sys.modules.pop(modname, None)


def run_shard(ctx):
    warnings.simplefilter('ignore')
    combos = list(itertools.product(KIND_NAMES, POSITIONS, SHAPES, VERBOSITIES))
    nctx = ctx.pick(1, 8)
    ncli = ctx.pick(40, 300)
    ctx.notes['fault_table_cells'] = len(combos)
    ctx.exhaustive = True
    total = len(combos) * nctx
    cli_every = max(1, total // ncli)
    for i in ctx.my_indices(total):
        kind, pos, shape, verbose = combos[i % len(combos)]
        ctxno = i // len(combos) + 1000 * ctx.seed
        check_case(ctx, i, kind, pos, shape, verbose, ctxno, cli=(i % cli_every == 0))
    for j in range(ctx.pick(3, 24)):
        check_shared_instance(ctx, ctx.shard * 1000 + j, j % 4)


def replay(case, ctx):
    warnings.simplefilter('ignore')
    if case.get('kind') == 'shared_instance':
        return check_shared_instance(ctx, case['index'], case['verbose'])
    check_case(ctx, case['index'], case['kind'], case['pos'], case['shape'], case['verbose'], case['ctxno'],
               cli=case.get('cli', False))


def classify(v):
    return None


LEVEL_TEXT = ("Fault enumeration: every (failure kind x position x shape x verbosity) combination - about 860 cells - is "
              "materialised as a module file and driven through DocTest.run, repr_failure, runner.doctest_module and, for a "
              "sample, the CLI; the monitors assert 'returned a failed summary', 'report rendered, names the type and points "
              "at the marked line', 'the other doctests ran and were tallied', 'exit 1 with the summary line'.")
LEVEL_NOTE = ("Trusted: unique FAIL markers to identify the failing line in the file; by-construction health of the neighbour "
              "doctests.")
TECHNIQUE = "runtime monitor: fault enumeration (failure kind x position x shape x verbosity x runner) with return-not-raise, render and tally oracles, markers read back from the file"

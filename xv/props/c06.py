"""
C06 - Ellipsis is a true wildcard.

Monitor: every call of the matcher at two boundaries (checker._ellipsis_match when it
exists, checker.check_output(+/-ELLIPSIS) always) is compared with the independent
relation models.ell_match (left-to-right scanner + one anchored DOTALL regex).
Workload: every (got, want) pair over {a, b, space, newline, '.'} up to a length bound,
plus random longer pairs derived from each other by replacing substrings with '...'.
"""
import itertools
import random

from xv import models

PROPERTY = 'C06'
LEVEL = 'exploration'
RULE = ("two finite spaces are enumerated completely (exhaustive=true refers to them): (A) every (want, got) pair over "
        "the characters {a,b,' ','\\n','.'} with len(want)<=W, len(got)<=G; (B) every want of up to TW tokens over "
        "{a,b,' ','\\n','...'} ('...' counts as one token, so wants with 2 and 3 wildcards and literals between them "
        "are inside the bound) against every got of up to TG characters; pairs are distinct by construction and a pair "
        "is non-trivial when the want contains '...'.  Then random longer pairs are derived from a random got by "
        "replacing 1..4 (a quarter of the cases: 5..20, in texts of up to 200 characters) substrings with '...' (must match), and by then editing one literal character "
        "(reference decides); each pair is judged at checker._ellipsis_match and at "
        "checker.check_output under +ELLIPSIS and -ELLIPSIS")
ASSUMPTIONS = [
    "the public-boundary comparison applies the documented trailing-blank normalisation (per line [ \\t]*$, "
    "then rstrip) to the reference's inputs; all other leniencies are switched off",
    "an empty want matches everything at check_output (documented: nothing wanted, nothing checked)",
    "checker._ellipsis_match is a private name: if it is missing the monitor is reported unavailable and the "
    "public boundary alone decides",
]
ALPHA = ['a', 'b', ' ', '\n', '.']
NSHARDS = {'quick': 16, 'thorough': 16}
RULE += (' For a third of the public pairs ELLIPSIS is switched on one state object between two calls on the same texts.')


def required_cells(tier):
    return ['pair:wild:match', 'pair:wild:nomatch', 'pair:plain:match', 'pair:plain:nomatch',
            'public:+ELLIPSIS', 'public:-ELLIPSIS', 'derived:positive', 'derived:edited', 'derived:dotted',
            'wildcards:1', 'wildcards:2', 'wildcards:3', 'derived-wildcards:1-4', 'derived-wildcards:5-8',
            'derived-wildcards:9-12', 'derived-wildcards:13+', 'public:ELLIPSIS-switched-between-calls']


TOKENS = ['a', 'b', ' ', '\n', '...']


def strings_upto(n, alpha=None):
    alpha = alpha or ALPHA
    out = []
    for k in range(n + 1):
        for t in itertools.product(alpha, repeat=k):
            out.append(''.join(t))
    return out


def _ntok(w):
    return len(w) - 2 * w.count('...')


def _states():
    from xdoctest import directive
    on = directive.RuntimeState()
    off = directive.RuntimeState()
    for rs, ell in ((on, True), (off, False)):
        for f in models.FLAGS:
            rs[f] = False
        rs['ELLIPSIS'] = ell
    return on, off


def check_pair_private(ctx, fn, got, want):
    exp = models.ell_match(got, want)
    obs = bool(fn(got, want))
    if obs != exp:
        ctx.violation('ellipsis-private', '_ellipsis_match(%r, %r) -> %r, reference %r' % (got, want, obs, exp),
                      {'kind': 'private', 'got': got, 'want': want}, observed=obs, expected=exp)
    return exp


def check_pair_public(ctx, check_output, on, off, got, want):
    g = models.cut_trailing(got)
    w = models.cut_trailing(want)
    for rs, ell in ((on, True), (off, False)):
        if not want or got == want:
            exp = True
        else:
            exp = models.match(g, w, ell)
        obs = bool(check_output(got, want, rs))
        if obs != exp:
            ctx.violation('ellipsis-public',
                          'check_output(%r, %r, ELLIPSIS=%s) -> %r, reference %r' % (got, want, ell, obs, exp),
                          {'kind': 'public', 'got': got, 'want': want}, observed=obs, expected=exp, ellipsis=ell)
        ctx.cell('public:%sELLIPSIS' % ('+' if ell else '-'))
    if want and got != want and (len(got) + len(want)) % 3 == 0:
        # one state object whose ELLIPSIS flag is switched between two calls on the same texts (what an -ELLIPSIS directive
        # does in the middle of a doctest): the flag as it is at the time of the call decides
        sw = getattr(check_pair_public, 'switched', None)
        if sw is None:
            from xdoctest import directive
            sw = check_pair_public.switched = directive.RuntimeState()
            for f in models.FLAGS:
                sw[f] = False
        for ell in ((True, False) if len(got) % 2 else (False, True)):
            sw['ELLIPSIS'] = ell
            exp = models.match(g, w, ell)
            obs = bool(check_output(got, want, sw))
            if obs != exp:
                ctx.violation('ellipsis-public', 'check_output(%r, %r) with ELLIPSIS switched to %s on a state object used for '
                              'the other setting just before -> %r, reference %r' % (got, want, ell, obs, exp),
                              {'kind': 'public', 'got': got, 'want': want}, observed=obs, expected=exp, ellipsis=ell)
        ctx.cell('public:ELLIPSIS-switched-between-calls')


def run_shard(ctx):
    from xdoctest import checker
    fn = getattr(checker, '_ellipsis_match', None)
    if fn is None:
        ctx.unavailable.add('checker._ellipsis_match')
    on, off = _states()
    # two enumerated spaces: (A) wants over the raw characters, (B) wants over tokens where '...' is ONE
    # token, so that wants with two and three wildcards and literals between them are inside the bound
    W, G = ctx.pick((5, 5), (7, 6))
    TW, TG = ctx.pick((5, 5), (6, 6))
    PW, PG = ctx.pick((4, 4), (5, 5))      # public-boundary bound (both spaces)
    raw_wants = strings_upto(W)
    tok_wants = [w for w in strings_upto(TW, TOKENS) if '...' in w]
    seen = set(raw_wants)
    tok_wants = [w for w in sorted(set(tok_wants)) if w not in seen]
    gots_by_len = {}
    allgots = strings_upto(max(G, TG))
    ctx.notes['enumerated_bound'] = {
        'alphabet': ALPHA, 'A_want_chars': W, 'A_got_chars': G, 'B_want_tokens': TW, 'B_got_chars': TG,
        'B_tokens': TOKENS, 'public_want_len': PW, 'public_got_len': PG,
        'A_wants': len(raw_wants), 'B_wants_new': len(tok_wants)}
    ctx.exhaustive = True
    n_priv = n_pub = 0
    cm = collections_counter()
    work = [(w, G, len(w) <= PW) for w in raw_wants] + [(w, TG, _ntok(w) <= PW) for w in tok_wants]
    gots_pub = [g for g in allgots if len(g) <= PG]
    for wi in ctx.my_indices(len(work)):
        want, glen, public = work[wi]
        gots = gots_by_len.get(glen)
        if gots is None:
            gots = gots_by_len[glen] = [g for g in allgots if len(g) <= glen]
        wild = '...' in want
        if fn is not None:
            if wild:
                rx = models.ell_regex(want)
                for got in gots:
                    exp = rx.match(got) is not None
                    obs = fn(got, want)
                    if bool(obs) != exp:
                        ctx.violation('ellipsis-private',
                                      '_ellipsis_match(%r, %r) -> %r, reference %r' % (got, want, obs, exp),
                                      {'kind': 'private', 'got': got, 'want': want}, observed=bool(obs), expected=exp)
                    cm[(True, exp)] += 1
            else:
                for got in gots:
                    exp = got == want
                    obs = fn(got, want)
                    if bool(obs) != exp:
                        ctx.violation('ellipsis-private',
                                      '_ellipsis_match(%r, %r) -> %r, reference %r' % (got, want, obs, exp),
                                      {'kind': 'private', 'got': got, 'want': want}, observed=bool(obs), expected=exp)
                    cm[(False, exp)] += 1
            n_priv += len(gots)
            if wild:
                ctx.nontrivial_count(len(gots))
        if public:
            for got in gots_pub:
                check_pair_public(ctx, checker.check_output, on, off, got, want)
            n_pub += 2 * len(gots_pub)
            if fn is None and wild:
                ctx.nontrivial_count(len(gots_pub))
            if fn is None:
                for got in gots_pub:
                    cm[(wild, models.ell_match(got, want))] += 1
        if wild:
            nw = want.count('...')
            ctx.cell('wildcards:%d' % min(nw, 3))
    for (wild, exp), n in cm.items():
        ctx.cell('pair:%s:%s' % ('wild' if wild else 'plain', 'match' if exp else 'nomatch'), n)
    ctx.evaluation(n_priv + n_pub)
    ctx.event('ellipsis_match_calls_compared', n_priv)
    ctx.event('check_output_calls_compared', n_pub)

    # ---- random longer pairs derived from each other
    n_rand = ctx.pick(20000, 400000)
    for idx in ctx.my_indices(n_rand):
        rng = random.Random(ctx.case_seed(idx))
        got, want, edited = derive_pair(rng)
        ctx.evaluation()
        ctx.nontrivial(('d', got, want))
        exp = models.ell_match(got, want)
        if not edited and not exp:
            # generator invariant (positive by construction) - the reference must agree with it
            raise AssertionError('reference rejects a pair that matches by construction: %r %r' % (got, want))
        if fn is not None:
            check_pair_private(ctx, fn, got, want)
            ctx.event('ellipsis_match_calls_compared')
        check_pair_public(ctx, checker.check_output, on, off, got, want)
        ctx.event('check_output_calls_compared', 2)
        ctx.cell('derived:%s' % (edited or 'positive'))
        nw = want.count('...')
        ctx.cell('derived-wildcards:%s' % ('1-4' if nw <= 4 else '5-8' if nw <= 8 else '9-12' if nw <= 12 else '13+'))
        if idx < 3:
            ctx.sample({'got': got, 'want': want, 'reference_match': exp, 'edited': edited})
    if ctx.shard == 0:
        ctx.sample({'got': 'ab b', 'want': 'a...b', 'reference_match': models.ell_match('ab b', 'a...b')})


def collections_counter():
    import collections
    return collections.Counter()


RICH = 'abcxyz019_-=:,()[]{}<>#$ \n\n  '


def derive_pair(rng):
    many = rng.random() < 0.25     # long texts with many wildcards (tables, logs with a '...' per line)
    n = rng.randint(40, 200) if many else rng.randint(3, 60)
    dotted = rng.random() < 0.3
    alpha = RICH + '....' if dotted else RICH
    got = ''.join(rng.choice(alpha) for _ in range(n))
    # a got containing dots is fine (they are literal there) but a wildcard placed next to
    # one re-tokenises, so such pairs are not positive by construction: the reference decides
    k = rng.randint(5, 20) if many else rng.randint(1, 4)
    cuts = sorted(rng.sample(range(len(got) + 1), min(2 * k, len(got) + 1)))
    if len(cuts) % 2:
        cuts = cuts[:-1]
    pieces = []
    pos = 0
    for a, b in zip(cuts[0::2], cuts[1::2]):
        pieces.append(got[pos:a])
        pad_l = rng.choice(['', '', ' ', '\n'])
        pad_r = rng.choice(['', '', ' ', '\n '])
        pieces.append(pad_l + '...' + pad_r)
        pos = b
    pieces.append(got[pos:])
    want = ''.join(pieces)
    edited = 'dotted' if dotted else False
    if rng.random() < 0.5:
        edited = 'edited'
        # edit one character that is not part of a wildcard
        cand = [i for i, c in enumerate(want) if c != '.']
        if cand:
            i = rng.choice(cand)
            repl = rng.choice('QZ .\n')
            op = rng.random()
            if op < 0.4:
                want = want[:i] + repl + want[i + 1:]
            elif op < 0.7:
                want = want[:i] + repl + want[i:]
            else:
                want = want[:i] + want[i + 1:]
    return got, want, edited


def replay(case, ctx):
    from xdoctest import checker
    fn = getattr(checker, '_ellipsis_match', None)
    on, off = _states()
    ctx.evaluation()
    if case['kind'] == 'private' and fn is not None:
        check_pair_private(ctx, fn, case['got'], case['want'])
    check_pair_public(ctx, checker.check_output, on, off, case['got'], case['want'])


def classify(v):
    return None

LEVEL_TEXT = ("Exploration with an exhaustive core: every (got, want) pair over a 5-symbol alphabet up to the length "
              "bound (76 M pairs quick, 1.9 G thorough) is run through the real matcher and compared with an "
              "independent definition of the ellipsis relation (scanner + one anchored DOTALL regex); random longer "
              "derived pairs extend it beyond the bound.  Nothing is claimed for strings outside what was enumerated "
              "or sampled.")
LEVEL_NOTE = ("Trusted: Python's re module (the reference is one anchored regex), the reading of the prose encoded in "
              "models.ell_match (blanks next to a wildcard are absorbed by it).  The private-function monitor is optional "
              "depth; check_output under +/-ELLIPSIS is the deciding public boundary.")
TECHNIQUE = "runtime monitor: differential oracle (independent reference relation) on every observed matcher call, exhaustive small-scope enumeration + derived random pairs"

"""
C18 - Displayed doctest source is faithful and re-parses to the same doctest.

Doctests from the C01 program generator (plus value-returning statements) are formatted under
every option set and the rendered text is observed:
  * every source and want line once and in order (against the parts' own line lists);
  * parsing the rendered text again yields the same flattened event list
    [('src', line) ... ('want', lines, mode)];
  * every displayed number n is checked model-free against the docstring text: the line it labels
    must be docstring line (n - L) for file-relative numbering (docstring given at line L) or
    (first prompt line + n - 1) for doctest-relative numbering.
"""
import re
import random

from xv import gen_programs as gp
from xv import harness

PROPERTY = 'C18'
LEVEL = 'exploration'
RULE = ("doctests produced by the C01 program generator (all statement kinds and layouts, exact wants, prose and blank "
        "lines, google or freeform) and extended by value-returning expressions with repr wants, each given at a random "
        "file line L in 1..2000; each is formatted with {prompts on/off} x {wants on/off} x {line numbers off, "
        "doctest-relative, file-relative; the latter two chosen by the call's argument or left to the session's --offset "
        "setting in the doctest's config, all six combinations}.  Non-trivial = at least two parts and one want; distinct by docstring hash.  "
        "Plus the real docstrings of the repository (quick) and of the installed standard library and site-packages "
        "(thorough, ~1.4 k): lines once and in order, and the rendered text parses to the same doctest")
ASSUMPTIONS = [
    "re-parsing compares flattened (source line / want+mode) events, not part boundaries: when prose disappears from "
    "the rendered text neighbouring want-less parts legitimately merge",
    "an unprefixed string-body line is displayed with the '... ' it gained when parsed; it is compared with the docstring "
    "line modulo that prefix and leading blanks",
]
NSHARDS = {'quick': 16, 'thorough': 16}
RULE += (' Directed docstrings: comments in front of else / behind a decorator, wants whose lines are all indented, a left-out block in front of the doctest; every second text has gone through collection once before.')
NUM_RE = re.compile(r'^\s*(\d+) (.*)$')


def required_cells(tier):
    return ['reparse', 'lines-once-in-order', 'prefix:off', 'want:off', 'linenos:doctest-relative',
            'linenos:file-relative', 'wrapper:google', 'wrapper:freeform', 'multi-line-want', 'eval-mode', 'single-mode',
            'digits:1', 'digits:2', 'digits:3', 'digits:4', 'display-leaves-doctest-unchanged', 'corpus:repo', 'want-with-trailing-blanks',
            'linenos:session=True,call=False', 'linenos:session=True,call=None', 'linenos:session=False,call=None',
            'gutter:prompts=False,wants=True', 'gutter:prompts=True,wants=True', 'gutter:prompts=False,wants=False', 'directed-docstrings', 'docstring-text-collected-before'] + (
                ['corpus:stdlib'] if tier == 'thorough' else [])


def signature(dt):
    dt._parse()
    ev = []
    for p in dt._parts:
        ev.extend(('src', ln) for ln in p.exec_lines)
        if p.want_lines:
            ev.append(('want', tuple(p.want_lines), p.compile_mode))
    return ev


def gen_case(seed):
    rng = random.Random(seed)
    kinds = gp.ProgramGen.C01_KINDS
    g = gp.ProgramGen(rng, kinds=kinds)
    stmts = g.program(1, 8)
    # value-returning expressions (eval mode with a repr want)
    extra = []
    for st in stmts:
        extra.append(st)
        if rng.random() < 0.25:
            i = g.nid()
            extra.append(gp.Stmt(['val(%d)' % i], 'val', i, is_expr=True))
        elif rng.random() < 0.12:
            # a bare literal: its text (and its echoed value) is a number, like the line numbers next to it
            i = g.nid()
            extra.append(gp.Stmt([str(rng.choice([1, 2, 3, 5, 10, 11, 12, 21]))], 'intlit', i, is_expr=True))
    stmts = extra
    ref = gp.run_reference(stmts, repl_values=True)
    if ref.error is not None:
        raise AssertionError('generator produced a failing program %r' % (ref.error,))
    return rng, stmts, ref


def layout_with_values(rng, stmts, ref):
    """like Layout.render, but a 'val' statement gets its repr as want when no output is pending"""
    layout = gp.Layout.random(rng)
    wants = {}
    pending = ''
    for si, st in enumerate(stmts):
        pending += ref.outs[si]
        if st.kind == 'val':
            if not pending and rng.random() < 0.8:
                wants[si] = ['R%d' % st.sid]
        elif st.kind == 'intlit':
            if not pending and rng.random() < 0.8:
                wants[si] = [st.lines[0]]
        elif pending and rng.random() < layout.want_prob:
            cand = pending.rstrip('\n').split('\n')
            if gp.want_is_layoutable(cand):
                wants[si] = cand
                pending = ''
    doc, info = layout.render(stmts, ref.outs, wants=wants)
    return layout, doc, info


# docstrings written by hand for shapes the random layouts meet too rarely in the quick tier
DIRECTED_DOCS = [
    # prose between two chunks; the first holds a comment in front of an else, the second ends in a comment line behind
    # an evaluated expression (the display drops the prose, the two chunks become one: finding F38b)
    '>>> x = 1\n>>> if x < 0:\n>>>     print("neg")\n>>> # otherwise\n>>> else:\n>>>     print("pos")\n\nprose between\n\n'
    '>>> x + 1\n>>> # the value is shown\npos\n2\n',
    '>>> def deco(f): return f\n>>> @deco\n>>> # about the function\n>>> def f(): return 5\n\nprose between\n\n>>> f()\n>>> # echoed\n5\n',
    # wants whose lines are ALL indented relative to the prompt (right-aligned numbers, an indented table): the blanks
    # are part of the want
    '>>> print("%5d" % 42)\n   42\n>>> x = 1\n>>> print("  1 one", " 10 ten", sep=chr(10))\n  1 one\n 10 ten\n',
    '>>> x = 3\n>>> print("    deep")\n    deep\n\nprose between\n\n>>> print("  a", "    b", sep=chr(10))\n  a\n    b\n>>> y = 2\n',
    # a block that freeform collection leaves out, holding code and wants, in front of the doctest: its lines count for the
    # position of what follows (entry: text, want lines of the doctest, text of the doctest's first line)
    ('Summary.\n\nIgnore:\n    >>> hidden = [1,\n    ...           2]\n    >>> print(hidden)\n    [1, 2]\n    second line\n\nprose between\n\n'
     '>>> shown = 1\n>>> print(shown)\n1\n>>> later = 2\n', ['1'], '>>> shown = 1'),
    ('Script:\n    >>> print("a")\n    a\n    >>> print("b")\n    b\n\nprose between\n\n>>> first_real = 1\n>>> print(first_real + 1)\n2\n',
     ['2'], '>>> first_real = 1'),
]


class _FixedLayout(object):
    wrapper = 'freeform'


def check_case(ctx, index, case_seed, directed=None):
    if directed is not None:
        rng = random.Random(case_seed)
        doc = DIRECTED_DOCS[directed]
        first_text = None
        if isinstance(doc, tuple):
            doc, wl, first_text = doc
        else:
            wl = [ln for ln in doc.split('\n') if ln and not ln.startswith(('>>>', '...')) and ln != 'prose between']
        layout, info = _FixedLayout(), {'style': 'freeform', 'features': [], 'wants': {0: wl}}
    else:
        first_text = None
        rng, stmts, ref = gen_case(case_seed)
        layout, doc, info = layout_with_values(rng, stmts, ref)
    L = rng.choice([1, rng.randint(2, 9), rng.randint(10, 99), rng.randint(100, 999), rng.randint(1000, 2000)])
    case = {'index': index, 'case_seed': case_seed, 'doc': doc, 'lineno': L, 'features': info['features'], 'directed': directed}
    ctx.evaluation()

    def bad(mech, msg, **kw):
        ctx.violation(mech, msg + '\n--- docstring (given at line %d) ---\n%s' % (L, doc), case, **kw)

    try:
        if index % 2:
            # the same text has gone through collection before (another callable with a copied docstring, a second
            # collection of the module): what is displayed for this doctest is its own
            harness.collect(doc, style=info['style'], lineno=L + 40)
            ctx.cell('docstring-text-collected-before')
        exs, wl, printed = harness.collect(doc, style=info['style'], lineno=L)
    except Exception as ex:
        bad('collect-raised', 'parse_docstr_examples raised %r' % (ex,))
        return
    if len(exs) != 1:
        if 'mixed-continuation-then-want' in info['features']:
            ctx.cell('skipped:known-C01-finding')
            return
        bad('not-collected-once', '%d doctests collected instead of 1' % len(exs))
        return
    dt = exs[0]
    s1 = signature(dt)
    nparts = len(dt._parts)
    if nparts >= 2 and any(e[0] == 'want' for e in s1):
        ctx.nontrivial(doc)
    # ------------------------------------------------ 1. lines once and in order
    text = dt.format_src(linenos=False, colored=False, want=True, prefix=True)
    ctx.event('format_src_calls')
    exp_lines = []
    for p in dt._parts:
        exp_lines.extend(p.orig_lines)
        exp_lines.extend(p.want_lines or [])
    if text.split('\n') != exp_lines:
        bad('lines', 'format_src(prompts, wants) does not reproduce the source and want lines once and in order:\n%s' % text,
            observed=text.split('\n'), expected=exp_lines)
        return
    ctx.cell('lines-once-in-order')
    # the want lines as the docstring spells them (trailing blanks included), by construction
    placed = [w.lstrip() for si in sorted(info['wants']) for w in info['wants'][si]]
    shown = [w.lstrip() for p in dt._parts for w in (p.want_lines or [])]
    if placed != shown:
        k = next((j for j, (a, b) in enumerate(zip(placed, shown)) if a != b), min(len(placed), len(shown)))
        bad('want-text', 'want line %d of the docstring is %r, the parsed / displayed doctest has %r' % (
            k, placed[k] if k < len(placed) else None, shown[k] if k < len(shown) else None))
        return
    if any(w != w.rstrip() for w in placed):
        ctx.cell('want-with-trailing-blanks')
    # prefix off
    t2 = dt.format_src(linenos=False, colored=False, want=True, prefix=False)
    exp2 = []
    for p in dt._parts:
        exp2.extend(p.exec_lines)
        exp2.extend(p.want_lines or [])
    if t2.split('\n') != exp2:
        bad('lines', 'format_src(prefix=False) does not reproduce the executable and want lines:\n%s' % t2)
        return
    ctx.cell('prefix:off')
    t3 = dt.format_src(linenos=False, colored=False, want=False, prefix=True)
    exp3 = [ln for p in dt._parts for ln in p.orig_lines]
    if t3.split('\n') != exp3:
        bad('lines', 'format_src(want=False) is not exactly the source lines:\n%s' % t3)
        return
    ctx.cell('want:off')
    ctx.event('format_src_calls', 2)
    # ------------------------------------------------ 2. re-parse
    try:
        exs2, wl2, _ = harness.collect(text, style='freeform')
    except Exception as ex:
        bad('reparse', 'the formatted text does not parse: %r\n%s' % (ex, text))
        return
    if len(exs2) != 1:
        bad('reparse', 'the formatted text yields %d doctests instead of 1\n%s' % (len(exs2), text))
        return
    s2 = signature(exs2[0])
    if s1 != s2:
        k = next((j for j, (a, b) in enumerate(zip(s1, s2)) if a != b), min(len(s1), len(s2)))
        bad('reparse', 'parsing the formatted text again gives a different doctest: event %d is %r, was %r\n--- formatted ---\n%s' % (
            k, s2[k] if k < len(s2) else None, s1[k] if k < len(s1) else None, text), observed=s2, expected=s1)
        return
    ctx.cell('reparse')
    ctx.event('reparse_comparisons')
    for e in s1:
        if e[0] == 'want':
            if len(e[1]) > 1:
                ctx.cell('multi-line-want')
            ctx.cell('%s-mode' % e[2])
    # ------------------------------------------------ 3. line numbers, model free
    dlines = doc.expandtabs().split('\n')
    first = next(i for i, ln in enumerate(dlines) if (ln.lstrip().startswith('>>>') if first_text is None else ln == first_text))

    def matches(shown, docline):
        a = shown.strip()
        b = docline.strip()
        if a == b:
            return True
        if a.startswith('... ') and a[4:].strip() == b:
            return True
        if a == '...' and b == '':
            return True
        return False

    # the session's --offset setting lives in the doctest's config; an explicit argument of the call wins over it,
    # no argument means the session's setting
    # (the config is set once per session value: what a call is GIVEN must not stay behind for the next call)
    prev_session = None
    for session_offset, given in ((False, False), (False, True), (False, None), (True, True), (True, False), (True, None),
                                  (True, True), (False, None)):
        if session_offset != prev_session:
            dt.config['offset_linenos'] = session_offset
            prev_session = session_offset
        off = session_offset if given is None else given
        t = dt.format_src(linenos=True, colored=False, want=True, prefix=True, offset_linenos=given)
        ctx.event('format_src_calls')
        tl = t.split('\n')
        q = 0
        ok = True
        for p in dt._parts:
            for j in range(len(p.orig_lines)):
                m = NUM_RE.match(tl[q]) if q < len(tl) else None
                if not m:
                    bad('line-numbers', 'displayed source line %r carries no number (session offset=%s, offset_linenos=%s)\n%s' % (
                        tl[q] if q < len(tl) else None, session_offset, given, t))
                    ok = False
                    break
                n = int(m.group(1))
                k = (n - L) if off else (first + n - 1)
                if not (0 <= k < len(dlines)) or not matches(m.group(2), dlines[k]):
                    bad('line-numbers', '(session --offset=%s, call offset_linenos=%s) with %s numbering the line %r is displayed as number %d, but that is %s line %r' % (
                        session_offset, given, 'file-relative' if off else 'doctest-relative', m.group(2), n,
                        'file' if off else 'doctest', dlines[k] if 0 <= k < len(dlines) else None), relative=not off)
                    ok = False
                    break
                q += 1
            if not ok:
                break
            for w in (p.want_lines or []):
                if q >= len(tl) or tl[q].strip() != w.strip() or NUM_RE.match(tl[q]) and not w.strip()[:1].isdigit():
                    bad('line-numbers', 'want line %r is displayed as %r' % (w, tl[q] if q < len(tl) else None))
                    ok = False
                    break
                q += 1
            if not ok:
                break
        if not ok:
            return
        ctx.cell('linenos:' + ('file-relative' if off else 'doctest-relative'))
        ctx.cell('linenos:session=%s,call=%s' % (session_offset, given))
        if off:
            ctx.cell('digits:%d' % len(str(L)))
    dt.config['offset_linenos'] = False
    # ------------------------------------------------ 3b. the numbered display is the unnumbered one behind a gutter
    for pfx in (True, False):
        for wnt in (True, False):
            plain = dt.format_src(linenos=False, colored=False, want=wnt, prefix=pfx).split('\n')
            numbered = dt.format_src(linenos=True, colored=False, want=wnt, prefix=pfx, offset_linenos=False).split('\n')
            ctx.event('format_src_calls', 2)
            what = 'prompts %s, wants %s' % ('on' if pfx else 'off', 'on' if wnt else 'off')
            if len(plain) != len(numbered):
                bad('gutter', 'with line numbers (%s) %d lines are displayed, without them %d' % (what, len(numbered), len(plain)))
                return
            # in front of a source line stands its number, in front of a want line a blank number column (at least
            # two columns: room for a digit and the separating blank), so that a want is never read as a numbered line
            q = 0
            first_prompt = first
            for p in dt._parts:
                nsrc = len(p.exec_lines)
                n = nsrc + (len(p.want_lines or []) if wnt else 0)
                for j, (a, b) in enumerate(zip(numbered[q:q + n], plain[q:q + n])):
                    if not a.endswith(b):
                        bad('gutter', 'with line numbers (%s) the line %r is displayed as %r' % (what, b, a))
                        return
                    gutter = a[:len(a) - len(b)]
                    if j < nsrc:
                        if not (gutter.endswith(' ') and gutter.strip().isdigit()):
                            bad('gutter', 'with line numbers (%s) the source line %r is displayed as %r: no number in front' % (
                                what, b, a))
                            return
                        if int(gutter) != p.line_offset + j + 1:
                            bad('gutter', 'with line numbers (%s) the source line %r carries number %d, it is line %d of the '
                                'doctest' % (what, b, int(gutter), p.line_offset + j + 1))
                            return
                    elif gutter.strip() or len(gutter) < 2:
                        bad('gutter', 'with line numbers (%s) the want line %r is displayed as %r: its number column %r is not '
                            'blank / too narrow, the want reads as a numbered line\n%s' % (
                                what, b, a, gutter, '\n'.join(numbered[q:q + n])))
                        return
                q += n
            ctx.cell('gutter:prompts=%s,wants=%s' % (pfx, wnt))
    # ------------------------------------------------ 4. displaying a doctest does not change it
    if signature(dt) != s1 or dt.format_src(linenos=False, colored=False, want=True, prefix=True) != text:
        bad('format-mutates', 'after being displayed under the other option sets the same DocTest object formats / parses '
            'differently: the display changed the doctest')
        return
    ctx.cell('display-leaves-doctest-unchanged')
    ctx.cell('wrapper:' + layout.wrapper)
    if ctx.shard == 0:
        ctx.sample({'docstring': doc, 'given_at_line': L, 'formatted_with_file_numbers': t}, limit=2)


def check_corpus(ctx, name, files):
    """real docstrings: every line once and in order, and the rendered text parses to the same doctest"""
    from xv.props import c13
    for f, node, doc in c13.iter_docstrings(files):
        for style in ('freeform', 'google'):
            try:
                exs, wl, _ = harness.collect(doc, style=style)
            except Exception:
                continue            # containment of broken real docstrings is C14's subject
            for dt in exs:
                try:
                    s1 = signature(dt)
                except Exception:
                    continue
                if not dt._parts:
                    continue
                case = {'corpus': name, 'file': f, 'node': node, 'style': style, 'num': dt.num, 'doc': doc}
                ctx.evaluation()
                text = dt.format_src(linenos=False, colored=False, want=True, prefix=True)
                exp = []
                for p in dt._parts:
                    exp.extend(p.orig_lines)
                    exp.extend(p.want_lines or [])
                if text.split('\n') != exp:
                    ctx.violation('lines', '%s::%s: format_src does not reproduce the source and want lines once and in order'
                                  '\n%s' % (f, node, text), case)
                    continue
                try:
                    exs2, _, _ = harness.collect(text, style='freeform')
                    s2 = signature(exs2[0]) if len(exs2) == 1 else None
                except Exception as ex:
                    s2 = repr(ex)
                if s2 != s1:
                    ctx.violation('reparse', '%s::%s (%s): parsing the formatted text again gives %s\n--- formatted ---\n%s' % (
                        f, node, style, 'a different doctest' if isinstance(s2, list) else s2, text), case)
                    continue
                ctx.cell('corpus:' + name)
                if len(dt._parts) >= 2 and any(e[0] == 'want' for e in s1):
                    ctx.nontrivial(text)


def run_shard(ctx):
    import warnings
    warnings.simplefilter('ignore')
    n = ctx.pick(3000, 50000)
    for idx in ctx.my_indices(n):
        check_case(ctx, idx, ctx.case_seed(idx))
    if ctx.shard == 0:
        for k in range(len(DIRECTED_DOCS)):
            check_case(ctx, -1 - k, 17 + k, directed=k)
            ctx.cell('directed-docstrings')
    import os
    import sysconfig
    from xv.props import c13
    repo_files = c13.py_files(os.path.join(os.environ.get('XV_REPO', '/repo'), 'src'))
    check_corpus(ctx, 'repo', repo_files[ctx.shard::ctx.nshards])
    if not ctx.quick():
        files = c13.py_files(sysconfig.get_paths()['stdlib']) + c13.py_files(sysconfig.get_paths()['purelib'])
        check_corpus(ctx, 'stdlib', files[ctx.shard::ctx.nshards])


def replay(case, ctx):
    import warnings
    warnings.simplefilter('ignore')
    if 'corpus' in case:
        check_corpus(ctx, case['corpus'], [case['file']])
        return
    check_case(ctx, case['index'], case['case_seed'], directed=case.get('directed'))


def classify(v):
    return None


LEVEL_TEXT = ("Exploration: thousands of generated doctests are formatted under all option sets; the rendered text is checked "
              "line by line against the parts, parsed again and compared event by event, and every displayed line number is "
              "looked up in the docstring text itself.")
LEVEL_NOTE = ("Trusted: the docstring text as ground truth for what line a number denotes; the parser for the re-parse "
              "direction (C13/C01 judge the parser itself).")
TECHNIQUE = "runtime monitor: round-trip oracle (format -> parse -> same events) + displayed line numbers looked up in the docstring text, over generated doctests x formatting options"

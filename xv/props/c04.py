"""
C04 - Directive scoping: block persists, inline is local, skipped code never runs.

Histories of events {block directive, statement in some shape with an optional inline directive}
are rendered as doctests and run; the event log T says which statements ran.
Oracle: models.DirectiveModel (persistent state + per-statement overlay), extended by one
matching flag (IGNORE_WHITESPACE) so that a leaking overlay of a non-SKIP flag is visible too.
Ride-along: a shadow state on every RuntimeState.update (M-E3).
"""
import random
import itertools

from xv import harness
from xv import ridealong

PROPERTY = 'C04'
LEVEL = 'exploration'
RULE = ("histories over events {block directive in +-SKIP, +-REQUIRES(met), +-REQUIRES(unmet a), +-REQUIRES(unmet b), "
        "+-IGNORE_WHITESPACE} u {statement in form one-line / bracketed with the directive on the first or last line / "
        "compound with the directive on the header or the last body line / decorated / with a correct want / with a wrong "
        "want / with directive-looking text in a string / whitespace probe (passes only under IGNORE_WHITESPACE)} x inline "
        "directive {none or any of the ten}; all histories up to length L over a 20-event alphabet are enumerated "
        "(exhaustive=true for that sub-space), then random histories of length 5..12 over the full alphabet; every "
        "history is also run with --options defaults and compared with the model started in that state; block directives "
        "are followed by nothing / blank prompt lines / a plain comment; directive comments are written in the accepted "
        "spellings (xdoctest: / doctest: prefix, blanks, lower-case name, '+' left out, two directives in one comment); a second family of random histories uses "
        "conditions that are facts about the process when the directive is reached (--flag on sys.argv, env:VAR[==|!=], "
        "platform / implementation / version tags) from seven base worlds, with statements that change the world.  Non-trivial = the "
        "history contains a directive and a statement; distinct by rendered text + defaults")
ASSUMPTIONS = [
    "unmet requirements are 'module:' names that cannot exist; the met one is module:os",
    "a directive comment on its own line inside a bracketed statement is ambiguous (own line, yet inline by position) "
    "and is not generated",
    "REPORT_* style switches are not part of the property and are not compared by the shadow state",
    "--options=+REQUIRES(...) (finding F9, repaired) is generated like the boolean options, with met and unmet conditions",
    "a REQUIRES condition is judged in the world (sys.argv, os.environ) as it is when the directive is reached, defaults "
    "when the configuration is populated; a pending condition is removed by -REQUIRES only while it is unmet, a case that "
    "cannot arise inside one doctest because the world only changes when a statement runs, i.e. when nothing is pending",
    "module existence is cached by xdoctest for the life of the process (_MODNAME_EXISTS_CACHE); modules are not created "
    "or removed during a history",
]
NSHARDS = {'quick': 16, 'thorough': 16}

UNMET_A = 'module:xv_nx_a_zz'
UNMET_B = 'module:xv_nx_b_zz'
DIRS = ['+SKIP', '-SKIP', '+REQUIRES(module:os)', '-REQUIRES(module:os)',
        '+REQUIRES(%s)' % UNMET_A, '-REQUIRES(%s)' % UNMET_A, '+REQUIRES(%s)' % UNMET_B, '-REQUIRES(%s)' % UNMET_B,
        '+IGNORE_WHITESPACE', '-IGNORE_WHITESPACE',
        # several conditions in one directive: each is judged on its own, in order
        '+REQUIRES(module:os, %s)' % UNMET_A, '+REQUIRES(%s, module:os)' % UNMET_A, '-REQUIRES(module:os, %s)' % UNMET_A,
        '+REQUIRES(%s, %s)' % (UNMET_A, UNMET_B), '-REQUIRES(module:os, %s, %s)' % (UNMET_A, UNMET_B)]
# conditions whose truth is a fact about the process *when the directive is reached*: command line flag,
# environment variable (three spellings), platform / implementation / version tags
DYN_CONDS = ['--xvf', 'env:XV_E==1', 'env:XV_E!=1', 'env:XV_E', '--xvg']
TAG_CONDS = {'linux': True, 'win32': False, 'cpython': True, 'pypy': False, 'py3': True, 'py2': False,
             'posix': True, 'nt': False}
DIRS_DYN = (['%sREQUIRES(%s)' % (sg, c) for c in DYN_CONDS for sg in '+-'] +
            ['%sREQUIRES(%s)' % (sg, c) for c in sorted(TAG_CONDS) for sg in '+-'] +
            ['+REQUIRES(--xvf, env:XV_E==1)', '-REQUIRES(--xvf, env:XV_E==1)', '+REQUIRES(linux, --xvf)',
             '+REQUIRES(module:os, --xvg)'])
WORLD_OPS = ['argv+f', 'argv-f', 'argv+g', 'env=1', 'env=0', 'env=empty', 'envdel']
BASE_WORLDS = [((), None), (('--xvf',), None), ((), '1'), (('--xvf',), '1'), (('--xvg',), '0'), (('--xvf', '--xvg'), ''),
               ((), '0')]


def met(arg, world):
    if arg.startswith('module:'):
        return arg == 'module:os'
    if arg.startswith('--'):
        return arg in world['argv']
    if arg.startswith('env:'):
        expr = arg[4:]
        val = world['env']
        if '==' in expr:
            return val == expr.split('==')[1]
        if '!=' in expr:
            return val != expr.split('!=')[1]
        return bool(val)
    return TAG_CONDS[arg]


def world_apply(op, world):
    if op == 'argv+f':
        world['argv'] = world['argv'] | {'--xvf'}
    elif op == 'argv-f':
        world['argv'] = world['argv'] - {'--xvf'}
    elif op == 'argv+g':
        world['argv'] = world['argv'] | {'--xvg'}
    elif op == 'env=1':
        world['env'] = '1'
    elif op == 'env=0':
        world['env'] = '0'
    elif op == 'env=empty':
        world['env'] = ''
    elif op == 'envdel':
        world['env'] = None


WORLD_CODE = {
    'argv+f': "_a = __import__('sys').argv; _a.append('--xvf')",
    'argv-f': "_a = __import__('sys').argv; _a[:] = [x for x in _a if x != '--xvf']",
    'argv+g': "_a = __import__('sys').argv; _a.append('--xvg')",
    'env=1': "__import__('os').environ['XV_E'] = '1'",
    'env=0': "__import__('os').environ['XV_E'] = '0'",
    'env=empty': "__import__('os').environ['XV_E'] = ''",
    'envdel': "_e = __import__('os').environ.pop('XV_E', None)",
}

FORMS = ['one', 'multi', 'multi_first', 'compound', 'compound_last', 'deco', 'want', 'badwant', 'strlit', 'wsprobe',
         'decoclass', 'decoclass_last', 'decoasync', 'compound_comment', 'multi_comment', 'compound_wsline',
         'multi_wsline', 'mention', 'mention_multi', 'double_hash']
# what may follow a block directive line before the next statement (findings F23: blank prompt lines)
BLOCK_TAILS = {'blank1': ['>>>'], 'blank2': ['>>>', '>>>'], 'blank3ws': ['>>>   ', '>>>', '>>> '],
               'comment': ['>>> # just a comment'], 'comment_blank': ['>>> # just a comment', '>>>', '>>>']}

EX_ALPHABET = ([('block', d) for d in DIRS[:10] + [DIRS[10]]] +
               [('stmt', 'one', None), ('stmt', 'one', '+SKIP'), ('stmt', 'one', '-SKIP'),
                ('stmt', 'one', '+REQUIRES(%s)' % UNMET_A), ('stmt', 'one', '-REQUIRES(%s)' % UNMET_A),
                ('stmt', 'multi', '+SKIP'), ('stmt', 'badwant', '+SKIP'),
                ('stmt', 'wsprobe', None), ('stmt', 'wsprobe', '+IGNORE_WHITESPACE')])
assert len(EX_ALPHABET) == 20


def parse_dir(d):
    """-> (name, positive, [(arg, met) ...])"""
    pos = d[0] == '+'
    body = d[1:]
    if body.startswith('REQUIRES'):
        args = [a.strip() for a in body[len('REQUIRES('):-1].split(',')]
        return ('REQUIRES', pos, args)
    return (body, pos, [])


class Model(object):
    def __init__(self, skip=False, req=(), iw=False, world=None):
        self.skip = skip
        self.req = set(req)
        self.iw = iw
        self.world = world if world is not None else {'argv': frozenset(), 'env': None}

    def apply(self, d, state=None):
        skip, req, iw = state if state is not None else (self.skip, set(self.req), self.iw)
        name, pos, args = parse_dir(d)
        if name == 'SKIP':
            skip = pos
        elif name == 'REQUIRES':
            for arg in args:
                if not met(arg, self.world):
                    if pos:
                        req = set(req) | {arg}
                    else:
                        req = set(req) - {arg}
        elif name == 'IGNORE_WHITESPACE':
            iw = pos
        return skip, req, iw

    def block(self, d):
        self.skip, self.req, self.iw = self.apply(d)

    def overlay(self, d):
        st = (self.skip, set(self.req), self.iw)
        if d:
            st = self.apply(d, st)
        return st


def make_world(base):
    return {'argv': frozenset(base[0]), 'env': base[1]} if base else {'argv': frozenset(), 'env': None}


def run_model(events, defaults=(), base=None):
    m = Model(world=make_world(base))
    for d in defaults:
        m.block(d)
    out = []
    fail = False
    i = 0
    states = set()
    for e in events:
        if e[0] == 'block':
            m.block(e[1])
        else:
            i += 1
            skip, req, iw = m.overlay(e[2])
            states.add((skip, len(req) > 0))
            if (not skip) and not req:
                out.append(i)
                if e[1] == 'world':
                    world_apply(e[3], m.world)
                if e[1] == 'badwant' or (e[1] == 'wsprobe' and not iw):
                    fail = True
                    break
    return out, fail, states


def stmt_lines(i, form, inline, op=None, plain=False):
    c = '  ' + spell(inline, i, plain) if inline else ''
    if form == 'one':
        return ['>>> quiet(%d)%s' % (i, c)]
    if form == 'world':
        return ['>>> quiet(%d); %s%s' % (i, WORLD_CODE[op], c)]
    if form == 'multi':
        return ['>>> quiet(', '...     %d)%s' % (i, c)]
    if form == 'multi_first':
        return ['>>> quiet(%s' % c, '...     %d)' % i]
    if form == 'compound':
        return ['>>> for _k in range(1):%s' % c, '...     quiet(%d)' % i]
    if form == 'compound_last':
        return ['>>> for _k in range(1):', '...     quiet(%d)%s' % (i, c)]
    if form == 'deco':
        return ['>>> @deco(%d)%s' % (i, c), '... def g%d(): pass' % i]
    if form == 'compound_comment':
        # a comment-only line inside the statement that carries the inline directive
        return ['>>> for _k in range(1):', '...     # a comment inside the body', '...     quiet(%d)%s' % (i, c)]
    if form == 'mention':
        # comments that MENTION a directive without being one (the directive must open the comment); the statement's own
        # inline directive, if any, stands in a comment of its own on a continuation line
        if inline:
            return ['>>> quiet(  # formerly marked xdoctest: +SKIP', '...     %d)%s' % (i, c)]
        return ['>>> quiet(%d)  # no longer needs doctest: +SKIP' % i]
    if form == 'mention_multi':
        return ['>>> z%d = [  # TODO decide whether this needs xdoctest: +REQUIRES(module:xv_nx_a_zz)' % i,
                '...     quiet(%d)]%s' % (i, c)]
    if form == 'double_hash':
        # a commented-out directive
        if inline:
            return ['>>> quiet(  ## xdoctest: +SKIP', '...     %d)%s' % (i, c)]
        return ['>>> quiet(%d)  ## xdoctest: +SKIP' % i]
    if form == 'compound_wsline':
        # a whitespace-only line inside the body, before the line that carries the directive (finding F24)
        return ['>>> for _k in range(1):', '...     _x = 1', '...     ', '...     quiet(%d)%s' % (i, c)]
    if form == 'multi_wsline':
        return ['>>> z%d = [' % i, '...   ', '...     quiet(%d)]%s' % (i, c)]
    if form == 'multi_comment':
        return ['>>> z%d = [  # a trailing comment on the first line' % i, '...     # a comment-only line',
                '...     quiet(%d)]%s' % (i, c)]
    if form == 'decoclass':
        return ['>>> @deco(%d)%s' % (i, c), '... class G%d:' % i, '...     pass']
    if form == 'decoclass_last':
        return ['>>> @deco(%d)' % i, '>>> class G%d:' % i, '>>>     pass%s' % c]
    if form == 'decoasync':
        return ['>>> @deco(%d)%s' % (i, c), '... async def ag%d(): pass' % i]
    if form == 'want':
        return ['>>> quiet(%d) or print("o%d")%s' % (i, i, c), 'o%d' % i]
    if form == 'badwant':
        return ['>>> quiet(%d) or print("o%d")%s' % (i, i, c), 'WRONG%d' % i]
    if form == 'strlit':
        return ['>>> quiet(%d); s = "# xdoctest: +SKIP"%s' % (i, c)]
    if form == 'wsprobe':
        return ['>>> quiet(%d) or print("a b %d")%s' % (i, i, c), 'ab%d' % i]
    raise KeyError(form)


SPELL_PREFIX = ['# xdoctest: ', '# xdoctest: ', '# doctest: ', '#xdoctest:', '#   xdoctest:   ', '# xdoctest:']


def spell(d, salt, plain=False):
    """the comment that carries directive d, in one of the accepted spellings (prefix, blanks, case of the name, a '+'
    left out); chosen by a checksum of (d, salt) so that a history always renders to the same text"""
    import zlib
    if plain:
        return '# xdoctest: ' + d
    h = zlib.crc32(('%s|%s' % (d, salt)).encode())
    pre = SPELL_PREFIX[h % len(SPELL_PREFIX)]
    h //= 7
    sign, body = d[0], d[1:]
    name, paren, rest = body.partition('(')
    if h % 4 == 0:
        name = name.lower()
    h //= 4
    if sign == '+' and h % 5 == 0:
        sign = ''
    h //= 5
    if paren and h % 3 == 0:
        # blanks inside the argument list are ignored like everywhere else in a directive
        rest = rest.replace('==', ' == ').replace('!=', ' != ').replace(':', ': ', 1 if h % 2 else 0).replace(')', ' )')
        rest = ' ' + rest
    return pre + sign + name + paren + rest


def render(events, plain=False):
    L = []
    i = 0
    k = 0
    while k < len(events):
        e = events[k]
        if e[0] == 'block':
            text = spell(e[1], k, plain)
            nxt = events[k + 1] if k + 1 < len(events) else None
            if (not plain and nxt is not None and nxt[0] == 'block' and not (len(e) > 2 and e[2])
                    and (len(e[1]) + len(nxt[1]) + k) % 3 == 0):
                # two block directives in one comment, comma separated: applied in order
                # (separated by a comma or, like the standard doctest module allows, by blanks only)
                sep = ', ' if (len(e[1]) + k) % 2 else '  '
                nxt_text = spell(nxt[1], k + 1, plain).split(':', 1)[1].strip()
                if sep != ', ' and nxt_text[0] not in '+-':
                    nxt_text = '+' + nxt_text       # blanks only separate options that carry their sign
                text += sep + nxt_text
                e = nxt
                k += 1
            L.append('>>> ' + text)
            if len(e) > 2 and e[2]:
                L += BLOCK_TAILS[e[2]]
        else:
            i += 1
            L += stmt_lines(i, e[1], e[2], e[3] if len(e) > 3 else None, plain=plain)
        k += 1
    return '\n'.join(L)


def expected_T(out):
    """the deco form logs ('deco', i), all others log i"""
    return out


def normalise_T(T):
    return [t[1] if isinstance(t, tuple) else t for t in T]


def config_from_options(optstr):
    """the option string as the command line hands it over: through the argparse definitions the CLI and the plugin
    share (DoctestConfig._update_argparse_cli), then _populate_from_cli"""
    import argparse
    from xdoctest import doctest_example
    cfg = doctest_example.DoctestConfig()
    parser = argparse.ArgumentParser()
    cfg._update_argparse_cli(parser.add_argument)
    ns = vars(parser.parse_args(['--options=' + optstr, '--nocolor', '--verbose=0']))
    ns.setdefault('colored', False)
    return cfg._populate_from_cli(ns)


class World(object):
    """puts the process into the base world of a history (command line flags, one environment variable) and back"""
    def __init__(self, base):
        self.base = base

    def __enter__(self):
        import sys
        import os
        self.argv = list(sys.argv)
        self.env = os.environ.get('XV_E')
        sys.argv[:] = [a for a in sys.argv if a not in ('--xvf', '--xvg')] + list(self.base[0] if self.base else ())
        os.environ.pop('XV_E', None)
        if self.base and self.base[1] is not None:
            os.environ['XV_E'] = self.base[1]

    def __exit__(self, *a):
        import sys
        import os
        sys.argv[:] = self.argv
        os.environ.pop('XV_E', None)
        if self.env is not None:
            os.environ['XV_E'] = self.env


def check_history(ctx, events, defaults=(), origin='random', base=None):
    with World(base):
        _check_history(ctx, events, defaults, origin, base)


def _check_history(ctx, events, defaults, origin, base):
    from xdoctest import doctest_example
    doc = render(events)
    exp_out, exp_fail, states = run_model(events, defaults, base)
    case = {'events': [list(e) for e in events], 'defaults': list(defaults), 'doc': doc,
            'base': [list(base[0]), base[1]] if base else None}
    ctx.evaluation()
    has_dir = any(e[0] == 'block' or e[2] for e in events)
    has_stmt = any(e[0] == 'stmt' for e in events)
    if has_dir and has_stmt:
        if origin == 'random':
            ctx.nontrivial((doc, defaults))
        else:
            ctx.nontrivial_count(1)

    def bad(mech, msg, **kw):
        ctx.violation(mech, msg + '\n  defaults=%r command line flags / XV_E at the start=%r\n--- docstring ---\n%s' % (
            list(defaults), base, doc), case, **kw)

    if not has_stmt:
        return
    dt = doctest_example.DocTest(doc)
    if defaults:
        try:
            conf = config_from_options(', '.join(defaults))
        except Exception as ex:
            bad('options-parse-raised', '_populate_from_cli raised %r' % (ex,))
            return
        dt.config.update(conf)
        dt.config['verbose'] = 0
    rec = harness.run_doctest(dt)
    ctx.event('doctest_runs')
    if rec.raised is not None:
        bad('run-raised', 'run(on_error="return") raised %r' % (rec.raised,), defaults=list(defaults))
        return
    s = rec.summary
    T = normalise_T(rec.T)
    inline_unmet = any(e[0] == 'stmt' and e[2] and 'xv_nx_' in e[2] and e[2][0] == '+' for e in events)
    dyn_cells = set()
    if base is not None:
        for e in events:
            d = e[1] if e[0] == 'block' else e[2]
            if d and 'REQUIRES' in d:
                for a in parse_dir(d)[2]:
                    if a in DYN_CONDS or a in TAG_CONDS:
                        dyn_cells.add('cond:%s' % (a.split('=')[0].split('!')[0] if a.startswith('env:') else
                                                   'flag' if a.startswith('--') else 'tag'))
    if bool(s['failed']) != exp_fail:
        ei = s['exc_info']
        bad('verdict', 'model says the doctest %s, observed %s (%r); event log %r, model %r' % (
            'fails at a wrong want that is enabled' if exp_fail else 'does not fail', harness.outcome(s),
            ei[1] if ei else None, T, exp_out), inline_unmet=inline_unmet,
            exc=repr(ei[1])[:200] if ei else None)
        return
    if T != exp_out:
        extra = [t for t in T if t not in exp_out]
        missing = [t for t in exp_out if t not in T]
        bad('trace', 'statements that ran %r differ from the enabled set %r (ran although disabled: %r, did not run '
            'although enabled: %r)' % (T, exp_out, extra, missing), observed=T, expected=exp_out)
        return
    if not exp_out and not exp_fail:
        if not s['skipped']:
            bad('verdict', 'nothing ran but the doctest is reported %s' % harness.outcome(s))
            return
    for st in states:
        ctx.cell('state:skip=%d,req=%d' % (int(st[0]), int(st[1])))
    for e in events:
        if e[0] == 'block':
            ctx.cell('event:block')
            if len(e) > 2 and e[2]:
                ctx.cell('blocktail:' + e[2])
        else:
            ctx.cell('form:' + e[1])
            if e[2]:
                ctx.cell('event:inline')
    if defaults:
        ctx.cell('defaults:' + defaults[0])
    for c in dyn_cells:
        ctx.cell(c)
    import re as _re
    if '# doctest: ' in doc:
        ctx.cell('spelling:doctest-prefix')
    if _re.search(r'# ?x?doctest: ?[+-]?[A-Za-z_]+(\([^)]*\))?, ', doc):
        ctx.cell('spelling:two-directives-in-one-comment')
    if _re.search(r'# ?x?doctest: ?[+-]?[A-Za-z_]+(\([^)]*\))?  [+-][A-Za-z]', doc):
        ctx.cell('spelling:two-directives-separated-by-blanks')
    if _re.search(r'doctest: *[+-]?[a-z]', doc):
        ctx.cell('spelling:lower-case-name')
    if _re.search(r'doctest: *[A-Za-z]', doc):
        ctx.cell('spelling:no-sign')
    if _re.search(r'\( [^)]* (==|!=) [^)]*\)', doc):
        ctx.cell('spelling:blanks-inside-arguments')
    if base is not None and any(e[0] == 'stmt' and e[1] == 'world' and i_ran for e, i_ran in world_events(events, exp_out)):
        ctx.cell('world-changed-inside-the-doctest')
    if ctx.shard == 0 and origin == 'random':
        ctx.sample({'docstring': doc, 'defaults': list(defaults), 'model_enabled': exp_out, 'observed_T': T,
                    'model_fails': exp_fail, 'observed': harness.outcome(s)}, limit=3)


def world_events(events, exp_out):
    i = 0
    for e in events:
        if e[0] == 'stmt':
            i += 1
            yield e, i in exp_out


DEFAULT_CHOICES_DYN = [(), (), ('+REQUIRES(--xvf)',), ('+REQUIRES(--xvg)', '+IGNORE_WHITESPACE'), ('+SKIP',),
                       ('+REQUIRES(linux)',), ('+REQUIRES(win32)',),
                       # arguments whose case matters, several conditions in one directive (finding F30)
                       ('+REQUIRES(env:XV_E==1)',), ('+REQUIRES(env:XV_E)', '+IGNORE_WHITESPACE'),
                       ('+REQUIRES(cpython, linux)',), ('+REQUIRES(linux, --xvf, env:XV_E!=1)',), ('+REQUIRES(cpython,win32)', '-SKIP')]
DEFAULT_CHOICES = [(), (), ('+SKIP',), ('+IGNORE_WHITESPACE',), ('-SKIP',), ('+REQUIRES(%s)' % UNMET_A,),
                   ('+REQUIRES(module:os)',), ('+REQUIRES(%s)' % UNMET_B, '+IGNORE_WHITESPACE')]

F9_PROBES = [
    ('+REQUIRES(%s)' % UNMET_A, '>>> quiet(1)\n>>> quiet(2)'),
    ('+REQUIRES(module:os)', '>>> quiet(1)'),
]


def probe_f9(ctx):
    from xdoctest import doctest_example
    for opt, doc in F9_PROBES:
        ctx.evaluation()
        case = {'probe': 'F9', 'options': opt, 'doc': doc}
        dt = doctest_example.DocTest(doc)
        try:
            conf = config_from_options(opt)
        except Exception as ex:
            ctx.violation('options-requires', '--options=%s: _populate_from_cli raised %r' % (opt, ex), case, f9=True)
            continue
        dt.config.update(conf)
        dt.config['verbose'] = 0
        rec = harness.run_doctest(dt)
        exp = [] if 'xv_nx' in opt else [1]
        if rec.raised is not None or rec.summary['failed'] or rec.T != exp:
            what = repr(rec.raised) if rec.raised is not None else repr(rec.summary['exc_info'][1])[:300] if rec.summary['exc_info'] else 'T=%r' % rec.T
            ctx.violation('options-requires', '--options=%s does not behave like a leading block directive: %s' % (opt, what),
                          case, f9=True, what=what)
        else:
            ctx.cell('f9-probe-behaves')


def required_cells(tier):
    cells = ['state:skip=0,req=0', 'state:skip=1,req=0', 'state:skip=0,req=1', 'state:skip=1,req=1',
             'event:block', 'event:inline', 'defaults:+SKIP', 'defaults:+IGNORE_WHITESPACE', 'defaults:-SKIP',
             'defaults:+REQUIRES(%s)' % UNMET_A, 'defaults:+REQUIRES(module:os)', 'f9-probe-behaves',
             'cond:flag', 'cond:env:XV_E', 'cond:tag', 'world-changed-inside-the-doctest', 'defaults:+REQUIRES(--xvf)',
             'defaults:+REQUIRES(env:XV_E==1)', 'defaults:+REQUIRES(cpython, linux)', 'spelling:doctest-prefix', 'spelling:two-directives-in-one-comment', 'spelling:lower-case-name',
             'spelling:no-sign', 'spelling:blanks-inside-arguments', 'spelling:two-directives-separated-by-blanks']
    cells += ['form:' + f for f in FORMS] + ['blocktail:' + t for t in BLOCK_TAILS]
    return cells


def run_shard(ctx):
    import warnings
    warnings.simplefilter('ignore')
    ridealong.install(['runstate'])
    L = ctx.pick(3, 4)
    A = EX_ALPHABET
    total = sum(len(A) ** k for k in range(1, L + 1))
    ctx.notes['enumerated_bound'] = {'alphabet_events': len(A), 'max_length': L, 'histories': total}
    ctx.exhaustive = True
    idx = 0
    for k in range(1, L + 1):
        for hist in itertools.product(A, repeat=k):
            if idx % ctx.nshards == ctx.shard:
                check_history(ctx, list(hist), origin='enumerated')
            idx += 1
    n = ctx.pick(4000, 60000)
    for i in ctx.my_indices(n):
        rng = random.Random(ctx.case_seed(i))
        events = []
        for _ in range(rng.randint(5, 12)):
            if rng.random() < 0.35:
                events.append(('block', rng.choice(DIRS), rng.choice([None, None] + sorted(BLOCK_TAILS))))
            else:
                events.append(('stmt', rng.choice(FORMS), rng.choice([None, None] + DIRS)))
        check_history(ctx, events, origin='random')
        d = rng.choice(DEFAULT_CHOICES)
        if d:
            check_history(ctx, events, defaults=d, origin='random')
        # the same kind of history with conditions that are facts about the process (command line, environment,
        # platform) at the moment the directive is reached; the process is put into a base world first and
        # statements of the doctest may change it
        base = rng.choice(BASE_WORLDS)
        events = []
        for _ in range(rng.randint(4, 10)):
            r = rng.random()
            if r < 0.4:
                events.append(('block', rng.choice(DIRS_DYN if rng.random() < 0.8 else DIRS)))
            elif r < 0.55:
                events.append(('stmt', 'world', rng.choice([None, None, None] + DIRS_DYN), rng.choice(WORLD_OPS)))
            else:
                events.append(('stmt', rng.choice(FORMS), rng.choice([None, None] + DIRS_DYN + DIRS[:2])))
        check_history(ctx, events, defaults=rng.choice(DEFAULT_CHOICES_DYN), origin='random', base=base)
    if ctx.shard == 0:
        probe_f9(ctx)
    ridealong.drain(ctx, props=('C04',))
    if ctx.shard == ctx.nshards - 1:
        from xv import repo_ridealong
        if repo_ridealong.run(ctx, ('C04',)):
            ctx.cell('repo-tests-ridealong')


def replay(case, ctx):
    import warnings
    warnings.simplefilter('ignore')
    ridealong.install(['runstate'])
    if case.get('probe') == 'F9':
        probe_f9(ctx)
    elif case.get('ridealong'):
        raise SystemExit('ride-along witnesses are replayed through the check that produced them')
    else:
        base = case.get('base')
        check_history(ctx, [tuple(e) for e in case['events']], defaults=tuple(case['defaults']),
                      base=(tuple(base[0]), base[1]) if base else None)
    ridealong.drain(ctx, props=('C04',))


def classify(v):
    return None


LEVEL_TEXT = ("Exploration with an exhaustive core: every history up to length 3 (quick) / 4 (thorough) over a 20-event "
              "alphabet plus thousands of random longer histories over the full alphabet are run through the real parser, "
              "directive extraction and run loop; the set of statements that executed (unique-id event log) and the verdict "
              "are compared with a 30-line state machine, with and without --options defaults; a shadow state rides along on "
              "every RuntimeState.update.")
LEVEL_NOTE = ("Trusted: the state machine in this module as the reading of the property; Directive.effects() is used as the "
              "input of the shadow state (the shadow judges where effects are applied, not how a directive is parsed - the "
              "behavioural oracle covers parsing).")
TECHNIQUE = "runtime monitor: unique-id event log vs executable directive state machine over enumerated+random histories, shadow-state contract on RuntimeState.update"

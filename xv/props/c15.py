"""
C15 - pytest plugin and native runner give the same verdict for every doctest.

The same generated module, style and directive defaults go through `pytest --xdoctest` and
`python -m xdoctest <module> all`, both as subprocesses from an empty working directory.
Observed: pytest outcomes from the junit xml, native outcomes from the '* SUCCESS/FAILURE/SKIPPED'
lines, both exit statuses, and the exactly-once marker file.  The by-construction outcome is a
third witness that says which side is wrong.
"""
import os
import re
import sys
import random
import subprocess
import xml.etree.ElementTree as ET

from xv import gen_modules as gm

PROPERTY = 'C15'
LEVEL = 'exploration'
RULE = ("the C10 module generator (by-construction outcomes incl. force-disabled, comment only, unmet REQUIRES) extended by "
        "bodies whose verdict depends on the defaults (ellipsis want, whitespace-normalised want, a wrong want that only "
        "IGNORE_WANT lets pass; a doctest that fails after binding a name followed by doctests whose outcome depends on "
        "that name not being there; text files of google-style Example blocks through --xdoctest-glob (plugin only, "
        "by-construction outcomes in file order: __name__, main guard, own names only, names of a failed earlier block)) x style {auto, google, freeform} x defaults {none, -ELLIPSIS, +SKIP, -NORMALIZE_WHITESPACE, "
        "+IGNORE_WANT} passed as --options / --xdoctest-options.  Non-trivial = at least two doctests of different "
        "outcomes; distinct by (source, style, options) hash")
ASSUMPTIONS = [
    "modules always contain at least one doctest (pytest exits 5 on an empty collection) and do not use the pytest-only "
    "'# pytest.skip' marker",
    "force-disabled doctests appear as skipped in pytest and are omitted by the native runner (the documented difference)",
    "both front ends run from a working directory that is empty or holds a pytest.ini naming other xdoctest_options while "
    "explicit options are given to both; without explicit options the native runner alone reads that file (and "
    "pyproject.toml), a difference between the two command lines rather than between the verdicts of a doctest",
]
NSHARDS = {'quick': 16, 'thorough': 16}
RULE += (' Directed module variants (one in sixteen each): leftover names after a failure, unittest.SkipTest (finding F36), a module-level pytest.importorskip, order-dependent doctests around a callable that is defined twice; modules written as pkg/__main__.py and setup.py; text files.')
SHARD_TIMEOUT = {'quick': 1500, 'thorough': 6 * 3600}
OPTIONS = ['', '', '-ELLIPSIS', '+SKIP', '-NORMALIZE_WHITESPACE', '+IGNORE_WANT']

EXTRA_KINDS = {
    'opt_ellipsis': (['>>> mark("{id}")', '>>> print("abcdef")', 'a...f'], 'passed', True),
    'opt_ws': (['>>> mark("{id}")', '>>> print("a   b")', 'a b'], 'passed', True),
    'opt_ignore_want': (['>>> mark("{id}")', '>>> print("a")', 'zzz'], 'failed', True),
    # doctests that look at the stream object behind sys.stdout
    'stdout_encoding': (['>>> mark("{id}")', '>>> import sys', '>>> assert isinstance(sys.stdout.encoding, str)'], 'passed', True),
    'stdout_fileno': (['>>> mark("{id}")', '>>> import sys', '>>> isinstance(sys.stdout.fileno(), int)', 'True'], 'passed', True),
}
# a doctest that raises unittest.SkipTest: an exception like any other for DocTest.run, a skip for pytest (finding F36).
# Only in directed modules (the comparison of a module stops at its first disagreement).
SKIPTEST_KIND = {'raises_skiptest': (['>>> import unittest', '>>> mark("{id}")', '>>> raise unittest.SkipTest("no resource")'],
                                     'failed', True)}


def outcome_under(kind, base, options):
    if base == 'disabled':
        return base
    if kind == 'fail_compile_first' and options == '+SKIP':
        return 'skipped'
    if kind.startswith('skip_then'):
        return base         # the doctest switches SKIP off itself, whatever the default was
    if kind.startswith('fail_bad_directive'):
        return base         # the directive itself is read (and rejected) whatever the defaults say
    if options == '+SKIP':
        return 'skipped'
    if options == '-ELLIPSIS' and kind == 'opt_ellipsis':
        return 'failed'
    if options == '-NORMALIZE_WHITESPACE' and kind == 'opt_ws':
        return 'failed'
    if options == '+IGNORE_WANT' and kind in gm.FAIL_BY_OUTPUT + ('opt_ignore_want',):
        return 'passed'
    return base


def required_cells(tier):
    return (['agree:passed', 'agree:failed', 'agree:skipped', 'agree:disabled', 'style:auto', 'style:google',
             'style:freeform', 'exit:0', 'exit:1', 'leftover-pair:fail_reads_leftover', 'leftover-pair:pass_no_leftover',
             'file-name:__main__.py', 'file-name:setup.py', 'conftest-fills-xdoctest_namespace', 'textfile:agree', 'textfile:__name__-in-a-later-example', 'textfile:after-a-failed-example:reads_previous',
             'module-level-importorskip', 'order-dependent-doctests-out-of-line-order'] +
            ['options:' + (o or 'none') for o in set(OPTIONS)])


def run_native(path, style, options, cwd, env):
    # default verbosity on both sides: the two commands as the property names them
    cmd = [sys.executable, '-m', 'xdoctest', path, 'all', '--style=' + style, '--nocolor']
    if options:
        cmd.append('--options=' + options)
    p = subprocess.run(cmd, stdout=subprocess.PIPE, stderr=subprocess.STDOUT, text=True, cwd=cwd, env=env, timeout=300)
    res = {}
    for m in re.finditer(r'^\* (SUCCESS|FAILURE|SKIPPED): (\S+)\s*$', p.stdout, flags=re.M):
        res[m.group(2).split('::')[-1]] = {'SUCCESS': 'passed', 'FAILURE': 'failed', 'SKIPPED': 'skipped'}[m.group(1)]
    return p.returncode, res, p.stdout


def run_pytest(path, style, options, cwd, env):
    xml = os.path.join(cwd, 'junit.xml')
    cmd = [sys.executable, '-m', 'pytest', '-p', 'no:cacheprovider', '--xdoctest', '--xdoctest-style=' + style, '-q',
           '--color=no', '--junitxml=' + xml, path]
    if options:
        cmd.append('--xdoctest-options=' + options)
    p = subprocess.run(cmd, stdout=subprocess.PIPE, stderr=subprocess.STDOUT, text=True, cwd=cwd, env=env, timeout=300)
    res = {}
    if os.path.exists(xml):
        for tc in ET.parse(xml).getroot().iter('testcase'):
            name = tc.get('name')
            if tc.find('failure') is not None:
                st = 'failed'
            elif tc.find('error') is not None:
                st = 'error'
            elif tc.find('skipped') is not None:
                st = 'skipped'
            else:
                st = 'passed'
            res[name] = st
        os.unlink(xml)
    return p.returncode, res, p.stdout


def read_marks(path):
    if not os.path.exists(path):
        return []
    with open(path) as f:
        return [ln.strip() for ln in f if ln.strip()]


def check_module(ctx, idx, seed):
    rng = random.Random(seed)
    saved = dict(gm.OUTCOMES)
    gm.OUTCOMES.update(EXTRA_KINDS)
    try:
        if idx % 16 == 9:
            gm.OUTCOMES.update(SKIPTEST_KIND)
        layout = rng.choice(['google', 'freeform'])
        style = rng.choice([layout, 'auto'])
        # every eighth module opens with a doctest that fails after binding a name, followed by one whose outcome
        # depends on that name not being there
        lead = ['pass', 'fail_after_binding', gm.LEFTOVER_READERS[(idx // 8) % 2]][(idx // 16) % 2:] if idx % 8 == 5 else ()
        if idx % 16 == 9:
            lead = ['pass', 'raises_skiptest']
        om = gm.outcome_module(rng, '%dx%d' % (ctx.seed, idx), layout=layout, n=rng.randint(1, 7), lead=lead)
    finally:
        gm.OUTCOMES.clear()
        gm.OUTCOMES.update(saved)
    rng.choice(OPTIONS)        # (keeps the generator's stream as it was)
    options = OPTIONS[idx % len(OPTIONS)]       # round robin: every option set is met equally often
    work = os.path.join(ctx.tmp, 'w_%d_%d' % (ctx.shard, idx))
    os.mkdir(work)
    modname = 'pm_%d_%d_%d_zz' % (ctx.seed, ctx.shard, idx)
    path = os.path.join(work, modname + '.py')
    if idx % 8 == 6:
        # file names with a meaning elsewhere: a package's __main__.py, a setup.py (stock pytest leaves both alone,
        # both front ends of xdoctest collect them)
        if idx % 16 == 6:
            os.mkdir(os.path.join(work, 'app_%d_zz' % idx))
            open(os.path.join(work, 'app_%d_zz' % idx, '__init__.py'), 'w').close()
            path = os.path.join(work, 'app_%d_zz' % idx, '__main__.py')
        else:
            path = os.path.join(work, 'setup.py')
        ctx.cell('file-name:' + os.path.basename(path))
    if idx % 16 == 11:
        # doctests whose outcome depends on the order they run in (a module-level registry), in a module whose collection
        # order is not the order of the lines: a callable defined twice keeps the place of its first definition and the
        # docstring of its last.  Both front ends run the doctests in collection order
        uid = '%dx%d' % (ctx.seed, idx)

        def _doc(lines):
            if layout == 'google':
                return ['    """', '    Summary.', '', '    Example:'] + ['        ' + ln for ln in lines] + ['    """']
            return ['    """', '    Summary.', ''] + ['    ' + ln for ln in lines] + ['    """']
        om.src += '\n'.join(
            ['', 'REG_ZZ = []', '', 'def redefined_zz():', '    """The fallback definition."""', '    return 0', '',
             'def between_zz():'] + _doc(['>>> mark("ordB%s")' % uid, '>>> REG_ZZ.append(1)', '>>> print(len(REG_ZZ))', '1']) +
            ['    return 1', '', 'def redefined_zz():'] +
            _doc(['>>> mark("ordA%s")' % uid, '>>> print(len(REG_ZZ))', '0']) + ['    return 2', '']) + '\n'
        om.tests.append({'ident': 'redefined_zz:0', 'callname': 'redefined_zz', 'kind': 'pass', 'outcome': 'passed',
                         'id': 'ordA%s' % uid, 'marks': True})
        om.tests.append({'ident': 'between_zz:0', 'callname': 'between_zz', 'kind': 'pass', 'outcome': 'passed',
                         'id': 'ordB%s' % uid, 'marks': True})
        ctx.cell('order-dependent-doctests-out-of-line-order')
    module_asks_to_be_skipped = idx % 16 == 13
    if module_asks_to_be_skipped:
        # the module needs an optional dependency and says so the pytest way: importing it raises pytest's Skipped
        om.src += '\nimport pytest\n_xv_dep = pytest.importorskip("xv_no_such_module_%d_zz")\n' % idx
        ctx.cell('module-level-importorskip')
    with open(path, 'w') as f:
        f.write(om.src)
    if idx % 4 == 2:
        # a conftest.py beside the module fills the xdoctest_namespace fixture (the documented pattern) with a name the
        # module defines itself
        with open(os.path.join(os.path.dirname(path), 'conftest.py'), 'w') as f:
            f.write('import pytest\n\n@pytest.fixture(autouse=True)\ndef add_names(xdoctest_namespace):\n'
                    '    xdoctest_namespace["LIMIT_ZZ"] = 100\n    xdoctest_namespace["HELPER_ZZ"] = 1\n')
        ctx.cell('conftest-fills-xdoctest_namespace')
    cwd = os.path.join(work, 'cwd')
    os.mkdir(cwd)
    if options and idx % 3 == 1:
        # a pytest.ini in the working directory that names other default options: an explicit --options /
        # --xdoctest-options wins on both sides (without an explicit option the native runner alone reads the file: a
        # difference of the two command lines that this check does not generate)
        with open(os.path.join(cwd, 'pytest.ini'), 'w') as f:
            f.write('[pytest]\nxdoctest_options = %s\n' % ('+SKIP' if options != '+SKIP' else '-NORMALIZE_WHITESPACE'))
        ctx.cell('pytest.ini-names-other-options')
    case = {'index': idx, 'case_seed': seed}
    ctx.evaluation()
    exp = {t['ident']: outcome_under(t['kind'], t['outcome'], options) for t in om.tests}
    if module_asks_to_be_skipped:
        # every doctest that gets as far as importing its module is skipped there (a directive that cannot be read is
        # rejected before that)
        for t in om.tests:
            if exp[t['ident']] in ('passed', 'failed') and not t['kind'].startswith('fail_bad_directive'):
                exp[t['ident']] = 'skipped'
    if len(set(exp.values())) >= 2:
        ctx.nontrivial((om.src, style, options))

    def bad(mech, msg, **kw):
        ctx.violation(mech, '%s\n  style=%s options=%r by construction: %s\n--- module ---\n%s' % (
            msg, style, options, sorted(exp.items()), om.src), case, **kw)

    try:
        env = dict(os.environ)
        mf_n = os.path.join(work, 'marks_native')
        mf_p = os.path.join(work, 'marks_pytest')
        rn, nres, nout = run_native(path, style, options, cwd, dict(env, XV_MARKFILE=mf_n))
        rp, pres, pout = run_pytest(path, style, options, cwd, dict(env, XV_MARKFILE=mf_p))
        ctx.event('native_runs')
        ctx.event('pytest_runs')
        ctx.event('junit_testcases_read', len(pres))
        if module_asks_to_be_skipped:
            # (pytest's own collector for Python files imports the module too and lists the file itself as skipped: not
            # an item of the plugin)
            pres.pop(os.path.splitext(os.path.basename(path))[0], None)
        # identifiers
        n_ids = set(nres)
        p_ids = set(pres)
        disabled = {k for k, v in exp.items() if v == 'disabled'}
        if p_ids != set(exp):
            bad('identifiers', 'pytest collected %r, the module holds %r\n%s' % (sorted(p_ids), sorted(exp), pout[-800:]))
            return
        if n_ids != set(exp) - disabled:
            bad('identifiers', 'the native runner reported %r, expected %r (force-disabled omitted)\n%s' % (
                sorted(n_ids), sorted(set(exp) - disabled), nout[-800:]))
            return
        ok = True
        for ident, e in sorted(exp.items()):
            pv = pres.get(ident)
            nv = nres.get(ident, 'omitted')
            if e == 'disabled':
                same = (pv == 'skipped' and nv == 'omitted')
            else:
                same = (pv == nv)
            if not same:
                blame = 'pytest' if pv != (e if e != 'disabled' else 'skipped') else 'native'
                kind_of = {t['ident']: t['kind'] for t in om.tests}
                bad('verdicts-differ', 'doctest %s (%s): pytest says %s, native says %s (by construction %s -> the %s side is wrong)' % (
                    ident, kind_of[ident], pv, nv, e, blame), ident=ident, pytest=pv, native=nv, kind=kind_of[ident])
                ok = False
                break
            if e != 'disabled' and pv != e:
                bad('both-wrong', 'doctest %s: both front ends say %s, by construction it is %s' % (ident, pv, e))
                ok = False
                break
        if not ok:
            return
        nfail = any(v == 'failed' for v in nres.values())
        pfail = any(v in ('failed', 'error') for v in pres.values())
        if (rn != 0) != nfail or (rp != 0) != pfail or (rn != 0) != (rp != 0):
            bad('exit-status', 'exit status native=%d (failing doctest: %s) pytest=%d (failing doctest: %s)\n%s\n%s' % (
                rn, nfail, rp, pfail, nout[-500:], pout[-500:]))
            return
        # exactly-once in both processes
        want_marks = [t['id'] for t in om.tests if t['marks'] and exp[t['ident']] not in ('disabled', 'skipped')]
        if options != '+SKIP':
            for name, mf in (('native', mf_n), ('pytest', mf_p)):
                marks = read_marks(mf)
                if marks != want_marks:
                    bad('exactly-once', '%s executed ids %r, expected %r' % (name, marks, want_marks))
                    return
        for e in exp.values():
            ctx.cell('agree:' + e)
        ctx.cell('style:' + style)
        ctx.cell('options:' + (options or 'none'))
        ctx.cell('exit:%d' % (1 if nfail else 0))
        kinds_in_order = [t['kind'] for t in om.tests]
        for a, b in zip(kinds_in_order, kinds_in_order[1:]):
            if a == 'fail_after_binding' and b in gm.LEFTOVER_READERS and options != '+SKIP':
                ctx.cell('leftover-pair:' + b)
        ctx.event('verdict_pairs_compared', len(exp))
        if ctx.shard == 0:
            ctx.sample({'module_source': om.src[:1200], 'style': style, 'options': options, 'pytest_junit': pres,
                        'native_lines': nres, 'exit': [rn, rp]}, limit=2)
    finally:
        import shutil
        shutil.rmtree(work, ignore_errors=True)


# ---------------------------------------------------------------- text files (plugin only)

TEXT_KINDS = {
    # kind: (lines after the mark line, outcome)
    'name': (['>>> print(__name__)', '__main__'], 'passed'),
    'mainguard': (['>>> if __name__ == "__main__":', '...     print("ran")', 'ran'], 'passed'),
    'bind': (['>>> own_{i} = 1', '>>> print(sorted(k for k in globals() if k.startswith("own_")))', "['own_{i}']"], 'passed'),
    'fail_after_binding': (['>>> own_{i} = 1', '>>> print("a")', 'b'], 'failed'),
    'reads_previous': (['>>> print(own_{p} + 1)', '2'], 'failed'),
    'skip': (['>>> print("never")  # xdoctest: +SKIP', 'BOGUS'], 'passed'),
    'all_skipped': None,
}
MARK_LINE = '>>> import os; _f = open(os.environ["XV_MARKFILE"], "a"); _ = _f.write("{id}\\n"); _f.close(); del _f, _, os'


def check_textfile(ctx, idx, seed):
    """
    A text file of google-style Example blocks run through the plugin (--xdoctest-glob): every block is a doctest of
    its own, runs as __main__ in a namespace of its own, whatever the blocks before it did.  The native runner has no
    text files: the oracle is the by-construction outcome of each block, in file order.
    """
    rng = random.Random(seed ^ 0x7e47)
    n = rng.randint(2, 6)
    kinds = []
    for k in range(n):
        kd = rng.choice(['name', 'mainguard', 'bind', 'fail_after_binding', 'skip', 'all_skipped'])
        if k and rng.random() < 0.35:
            kd = 'reads_previous'
        if k and kinds[-1] == 'fail_after_binding' and rng.random() < 0.6:
            kd = rng.choice(['reads_previous', 'bind', 'name', 'mainguard'])
        kinds.append(kd)
    L = ['Title %d' % idx, '=' * 8, '']
    exp = []
    ids = []
    for k, kd in enumerate(kinds):
        i = 't%dx%d' % (idx, k)
        L.append(rng.choice(['Example:', 'Doctest:']))
        if kd == 'all_skipped':
            body, outcome = ['>>> # xdoctest: +SKIP', MARK_LINE.replace('{id}', i), '>>> print("never")', 'BOGUS'], 'skipped'
        else:
            lines, outcome = TEXT_KINDS[kd]
            body = [MARK_LINE.replace('{id}', i)] + [ln.replace('{i}', str(k)).replace('{p}', str(k - 1)) for ln in lines]
            ids.append(i)
        L += ['    ' + ln for ln in body] + ['', 'Some prose between the examples.', '']
        exp.append(outcome)
    text = '\n'.join(L) + '\n'
    work = os.path.join(ctx.tmp, 'tx_%d_%d' % (ctx.shard, idx))
    os.mkdir(work)
    path = os.path.join(work, 'doc_%d.txt' % idx)
    with open(path, 'w') as f:
        f.write(text)
    style = rng.choice(['google', 'auto'])
    case = {'index': idx, 'case_seed': seed, 'textfile': True}
    ctx.evaluation()
    if len(set(exp)) >= 2:
        ctx.nontrivial((text, style))
    try:
        xml = os.path.join(work, 'junit.xml')
        mf = os.path.join(work, 'marks')
        cmd = [sys.executable, '-m', 'pytest', '-p', 'no:cacheprovider', '--xdoctest', '--xdoctest-glob=*.txt',
               '--xdoctest-style=' + style, '-q', '--color=no', '--junitxml=' + xml, path]
        p = subprocess.run(cmd, stdout=subprocess.PIPE, stderr=subprocess.STDOUT, text=True, cwd=work,
                           env=dict(os.environ, XV_MARKFILE=mf), timeout=300)
        ctx.event('pytest_textfile_runs')
        got = []
        if os.path.exists(xml):
            for tc in ET.parse(xml).getroot().iter('testcase'):
                got.append('failed' if tc.find('failure') is not None else 'error' if tc.find('error') is not None else
                           'skipped' if tc.find('skipped') is not None else 'passed')
        if got != exp:
            ctx.violation('textfile-verdicts', 'the examples of a text file, in order, are %r by construction (%r); pytest reports '
                          '%r (style=%s)\n--- text file ---\n%s\n--- pytest ---\n%s' % (exp, kinds, got, style, text, p.stdout[-1500:]),
                          case, expected=exp, observed=got)
            return
        marks = read_marks(mf)
        if marks != ids:
            ctx.violation('exactly-once', 'text file: executed ids %r, expected %r\n%s' % (marks, ids, text), case)
            return
        if (p.returncode != 0) != ('failed' in exp):
            ctx.violation('exit-status', 'text file: pytest exits %d with outcomes %r' % (p.returncode, exp), case)
            return
        ctx.cell('textfile:agree')
        for a, b in zip(kinds, kinds[1:]):
            if a == 'fail_after_binding':
                ctx.cell('textfile:after-a-failed-example:' + b)
            if b in ('name', 'mainguard'):
                ctx.cell('textfile:__name__-in-a-later-example')
        ctx.event('textfile_verdicts_compared', len(exp))
    finally:
        import shutil
        shutil.rmtree(work, ignore_errors=True)


def run_shard(ctx):
    n = ctx.pick(64, 640)
    for idx in ctx.my_indices(n):
        check_module(ctx, idx, ctx.case_seed(idx))
    for idx in ctx.my_indices(ctx.pick(32, 320)):
        check_textfile(ctx, idx, ctx.case_seed(idx))


def replay(case, ctx):
    if case.get('textfile'):
        check_textfile(ctx, case['index'], case['case_seed'])
    else:
        check_module(ctx, case['index'], case['case_seed'])


def classify(v):
    # F36 by mechanism: the doctest raises unittest.SkipTest, pytest turns that into a skip, the native runner reports the
    # exception
    if (v.get('mechanism') == 'verdicts-differ' and v.get('kind') == 'raises_skiptest' and v.get('pytest') == 'skipped'
            and v.get('native') == 'failed'):
        return 'skiptest-raised-in-doctest'
    return None


LEVEL_TEXT = ("Exploration by differential monitoring of two processes: the same module/style/options through the pytest "
              "plugin and the native CLI; identifiers, per-doctest outcome (junit xml vs result lines), exit statuses and an "
              "exactly-once marker file are compared, with the by-construction outcome as tie-breaker.  Subprocess cost "
              "limits this to tens (quick) / hundreds (thorough) of modules.")
LEVEL_NOTE = ("Trusted: pytest's junit xml as the record of pytest outcomes; the native '* SUCCESS/FAILURE/SKIPPED: node' "
              "lines at verbose=1; by-construction outcomes of three-line doctest bodies.")
TECHNIQUE = "runtime monitor: differential oracle pytest plugin vs native CLI (junit xml, result lines, exit status, exactly-once marker file), by-construction outcomes as third witness"

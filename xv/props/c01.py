"""
C01 - Doctest code runs exactly as written: each statement once, in order.

Workload: seeded programs from the statement grammar, each laid out three ways (prompt style
per statement, indentation by spaces or tabs, wants/prose/blank lines, google or freeform).
Monitors: compile/exec audit events under the doctest's filename (M-A), the in-namespace event
log T (M-B), the namespace snapshot taken when run() clears the globals (M-C), logged_stdout.
Oracle: the de-prompted program executed by plain compile/exec, statement by statement.
"""
import random

from xv import gen_programs as gp
from xv import harness

PROPERTY = 'C01'
LEVEL = 'exploration'
RULE = ("programs of 1..10 statements are drawn from the statement grammar (assign, emit, print, ';' lines, bracketed "
        "multi-line literals and calls, for/while/if/try/with/class/def (+blank line in body, global), decorated def and "
        "class, lambda, triple-quoted strings with unprefixed body lines, comments, comment inside brackets, backslash "
        "continuation, strings holding '#', '>>>' and '...', calls of earlier definitions, reads of earlier variables, "
        "top-level await, async def, async with); every statement carries a unique id.  Each program is written down in "
        "three random layouts (prompt style per statement, base indent 0/4/8 by spaces or tabs, wants = exact "
        "accumulated output placed at random, prose and blank lines, google 'Example:' block or freeform, one layout in five belongs to a module under test whose globals hold sentinel values under the names the program binds, the example "
        "after a want / blank line / prose written at another indentation 0/2/4/6 than the one before).  A case is "
        "one (program, layout); it is non-trivial when it has a multi-line or compound statement and at least one want; "
        "distinct cases are counted by the hash of the docstring text")
ASSUMPTIONS = [
    "wants whose first line starts with '...' or '>>>' are not generated; prose always follows a blank line",
    "unprefixed lines inside a multi-line string may lose up to four leading blanks: string bindings are compared "
    "modulo leading blanks per line only when the layout used an unprefixed line, exactly otherwise",
    "all generated expression statements evaluate to None, so program stdout and REPL echo coincide (value echo is C02/C20)",
    "compile conservation ignores blank and comment-only lines (a part holding only comments is never compiled)",
]
NSHARDS = {'quick': 16, 'thorough': 16}
RULE += (' Layouts: two empty lines as separator (inside google blocks too); statement kind with lines of a string literal that read like directives.')

COMPOUND = {'multiline', 'for', 'if', 'def', 'defblank', 'try', 'deco', 'deco2', 'mlstr', 'mlstr_prompt', 'with',
            'while', 'class', 'asyncdef', 'asyncwith', 'bracket_comment', 'backslash', 'callml', 'dictlit',
            'nestedfor', 'tryfinally', 'globaldef'}


def required_cells(tier):
    cells = ['kind:%s' % k for k in sorted(set(gp.ProgramGen.C01_KINDS))]
    cells += ['wrapper:google', 'wrapper:freeform', 'indent:tabs', 'indent:0', 'indent:4', 'indent:8',
              'coroutine-part', 'want-placed', 'multi-part', 'unprefixed-string-line', 'comment-only-skipped',
              'verbose:0', 'verbose:3', 'reindent-after-want:less', 'reindent-after-want:more',
              'reindent-after-separator', 'hosted-in-module', 'module-globals-rebound', 'mixed-tabs-and-blanks', 'expected-exception', 'whitespace-only-separator',
              'blanks-only-continuation-line', 'two-empty-lines-separator:google', 'two-empty-lines-separator:freeform']
    return cells


def gen_case(seed):
    rng = random.Random(seed)
    g = gp.ProgramGen(rng)
    stmts = g.program(1, 10)
    return rng, stmts


def host_module(ctx, case, ref, rng):
    """a module under test whose globals carry the same names the program binds (sentinel values): the doctest
    starts from a copy of them and every rebinding must stay in force for the rest of the doctest"""
    import os
    names = sorted(harness.user_bindings(ref.ns))
    chosen = [n for n in names if rng.random() < 0.6]
    modname = 'host_%d_%d_%d_%d_zz' % (ctx.seed, ctx.shard, case['index'], case['layout_no'])
    path = os.path.join(ctx.tmp, modname + '.py')
    with open(path, 'w') as f:
        f.write('# module under test: globals that the doctest rebinds\n')
        for n in chosen:
            f.write('%s = "MODULE-GLOBAL:%s"\n' % (n, n))
        # plain data that happens to carry the name of a __future__ feature: no feature is switched on by it
        f.write('annotations = {"a": 1}\ndivision = 2\ngenerator_stop = None\n')
        f.write('def host():\n    return 1\n')
    return path, modname, chosen


def check_layout(ctx, case, stmts, ref, rng):
    """one (program, layout): returns nothing, reports into ctx"""
    import os
    import sys
    layout = gp.Layout.random(rng)
    doc, info = layout.render(stmts, ref.outs)
    verbose = 3 if rng.random() < 0.12 else 0
    ctx.evaluation()
    case = dict(case, doc=doc, layout=layout.describe(), verbose=verbose, features=info['features'])
    only_comments = all(st.comment_only for st in stmts)
    hosted = None
    if case['layout_no'] == 2 and rng.random() < 0.6:
        hosted = host_module(ctx, case, ref, rng)
        case['module_globals'] = hosted[2]
    try:
        _check_layout(ctx, case, stmts, ref, rng, layout, doc, info, verbose, only_comments, hosted)
    finally:
        if hosted is not None:
            try:
                os.unlink(hosted[0])
            except OSError:
                pass
            sys.modules.pop(hosted[1], None)


def _check_layout(ctx, case, stmts, ref, rng, layout, doc, info, verbose, only_comments, hosted):
    def bad(mech, msg, **kw):
        ctx.violation(mech, msg + ('\n(the doctest belongs to a module whose globals %r hold sentinel values)' % (
            hosted[2],) if hosted else '') + '\n--- docstring ---\n' + doc, case, **kw)

    try:
        if hosted:
            exs, wl, printed = harness.collect(doc, style=info['style'], callname='host', modpath=hosted[0])
        else:
            exs, wl, printed = harness.collect(doc, style=info['style'])
    except Exception as ex:
        bad('collect-raised', 'parse_docstr_examples raised %r on a well formed docstring' % (ex,))
        return
    ctx.event('docstrings_parsed')
    if len(exs) != 1:
        bad('not-collected-once', 'well formed docstring yields %d doctests instead of 1 (warnings: %s)' % (
            len(exs), [str(w.message)[:200] for w in wl][:2]))
        return
    dt = exs[0]
    rec = harness.run_doctest(dt, verbose=verbose)
    ev = rec.audit.events
    ctx.event('compile_events', sum(1 for e in ev if e[0] == 'compile'))
    ctx.event('exec_events', sum(1 for e in ev if e[0] == 'exec'))
    ctx.event('doctest_runs')
    # ---- coverage cells
    for st in stmts:
        ctx.cell('kind:' + st.kind)
    ctx.cell('wrapper:' + layout.wrapper)
    ctx.cell('indent:tabs' if (layout.tabs and layout.base_indent) else 'indent:%d' % layout.base_indent)
    ctx.cell('verbose:%d' % verbose)
    if info['wants']:
        ctx.cell('want-placed')
    if hosted:
        ctx.cell('hosted-in-module')
        if hosted[2]:
            ctx.cell('module-globals-rebound')
    for f in info['features']:
        if f.startswith('reindent') or f in ('mixed-tabs-and-blanks', 'expected-exception', 'whitespace-only-separator',
                                              'blanks-only-continuation-line'):
            ctx.cell(f)
        if f == 'two-empty-lines-separator':
            ctx.cell(f + ':' + layout.wrapper)
    if info['unprefixed']:
        ctx.cell('unprefixed-string-line')
    if any(e[0] == 'exec' and e[2] for e in ev):
        ctx.cell('coroutine-part')
    if sum(1 for e in ev if e[0] == 'compile') > 1:
        ctx.cell('multi-part')
    if info['wants'] and any(st.kind in COMPOUND for st in stmts):
        ctx.nontrivial(doc)
    # ---- verdicts
    if rec.raised is not None:
        bad('run-raised', 'run(on_error="return") raised %r' % (rec.raised,))
        return
    s = rec.summary
    if only_comments:
        if not s['skipped']:
            bad('comment-only-not-skipped', 'a doctest of comments only reports %s' % harness.outcome(s))
        else:
            ctx.cell('comment-only-skipped')
        return
    if not s['passed']:
        ei = s['exc_info']
        bad('not-passed', 'doctest with exact wants reports %s: %r' % (harness.outcome(s), ei[1] if ei else None),
            observed_T=rec.T, expected_T=ref.T)
        return
    if rec.T != ref.T:
        bad('trace', 'event log differs from the plain program: observed %r expected %r' % (rec.T, ref.T),
            observed=rec.T, expected=ref.T)
        return
    exp_out = ''.join(ref.outs)
    if rec.logged != exp_out:
        bad('stdout-log', 'logged_stdout %r differs from what the code wrote %r' % (rec.logged, exp_out),
            observed=rec.logged, expected=exp_out)
        return
    if verbose >= 2:
        # not suppressed: the text must also have reached the real stdout, each piece once
        pos = 0
        for piece in [o for o in ref.outs if o]:
            k = rec.stdout_seen.find(piece, pos)
            if k < 0:
                bad('stdout-tee', 'with verbose=%d output %r did not reach sys.stdout in order' % (verbose, piece))
                return
            pos = k + len(piece)
    # ---- bindings (M-C)
    if rec.ns.n_clear != 1 or rec.ns.snap is None:
        ctx.unavailable.add('namespace-snapshot(n_clear=%d)' % rec.ns.n_clear)
    else:
        loose = info['unprefixed']
        a = {k: harness.norm_binding(v, loose) for k, v in harness.user_bindings(rec.ns.snap).items()}
        b = {k: harness.norm_binding(v, loose) for k, v in harness.user_bindings(ref.ns).items()}
        ctx.event('namespace_snapshots_compared')
        if a != b:
            diff = {k: (a.get(k), b.get(k)) for k in set(a) | set(b) if a.get(k) != b.get(k)}
            bad('bindings', 'final bindings differ from the plain program: %r' % (diff,), observed=repr(diff))
            return
    # ---- M-A: pairing + conservation
    kinds = [e[0] for e in ev]
    if not rec.audit.pairing_ok():
        bad('compile-exec-pairing', 'compile/exec events are not strictly paired: %r' % (kinds,))
        return
    # each exec runs the code object compiled just before, under the same filename
    for a_, b_ in zip(ev[0::2], ev[1::2]):
        if a_[2] != b_[1]:
            bad('compile-exec-pairing', 'exec of %r follows compile of %r' % (b_[1], a_[2]))
            return
    comp = harness.norm_code_lines([ln for src in rec.audit.compiled_sources() for ln in src.split('\n')])
    prog = harness.norm_code_lines(gp.deprompt(stmts))
    if comp != prog:
        bad('conservation', 'lines handed to compile() are not the program lines in order: compiled %r program %r' % (
            comp, prog), observed=comp, expected=prog)
        return
    # exact text (indentation included) for lines outside string bodies
    if not info['unprefixed']:
        comp_x = [ln.rstrip() for src in rec.audit.compiled_sources() for ln in src.split('\n')
                  if ln.strip() and not ln.strip().startswith('#')]
        prog_x = [ln.rstrip() for ln in gp.deprompt(stmts) if ln.strip() and not ln.strip().startswith('#')]
        if comp_x != prog_x:
            bad('conservation-indent', 'compiled lines differ from the program lines in leading whitespace',
                observed=comp_x, expected=prog_x)
            return
    ctx.event('conservation_checks')
    if ctx.shard == 0:
        ctx.sample({'docstring': doc, 'layout': layout.describe(), 'reference_T': ref.T,
                    'compile_events': rec.audit.compiled_sources(), 'logged_stdout': rec.logged}, limit=2)


def run_case(ctx, index, case_seed):
    rng, stmts = gen_case(case_seed)
    ref = gp.run_reference(stmts)
    if ref.error is not None:
        raise AssertionError('generator produced a failing program: %r\n%s' % (ref.error, gp.deprompt(stmts)))
    case = {'index': index, 'case_seed': case_seed, 'program': gp.deprompt(stmts)}
    for j in range(3):
        lrng = random.Random(case_seed * 7 + j)
        check_layout(ctx, dict(case, layout_no=j), stmts, ref, lrng)


COMMENT_ONLY = ['>>> # just a comment', '    >>> # comment A\n\n    prose\n\n    >>> # comment B',
                'Summary.\n\nExample:\n    >>> # nothing but this\n    >>> # and this']


def check_comment_only(ctx):
    """directed: doctests that hold nothing but comments run nothing and are reported skipped"""
    for k, doc in enumerate(COMMENT_ONLY):
        ctx.evaluation()
        exs, wl, printed = harness.collect(doc, style='google' if doc.startswith('Summary') else 'freeform')
        case = {'directed': 'comment-only', 'doc': doc}
        if len(exs) != 1:
            ctx.violation('not-collected-once', 'comment-only docstring yields %d doctests\n%s' % (len(exs), doc), case)
            continue
        rec = harness.run_doctest(exs[0])
        if rec.raised is not None or not rec.summary['skipped'] or rec.T or rec.audit.events:
            ctx.violation('comment-only-not-skipped', 'a doctest of comments only reports %s, event log %r, %d compile/exec '
                          'events\n%s' % (harness.outcome(rec.summary), rec.T, len(rec.audit.events), doc), case)
        else:
            ctx.cell('comment-only-skipped')


def run_shard(ctx):
    import warnings
    warnings.simplefilter('ignore')
    if ctx.shard == 0:
        for _ in range(4):
            check_comment_only(ctx)
    n = ctx.pick(4000, 60000)
    for idx in ctx.my_indices(n):
        run_case(ctx, idx, ctx.case_seed(idx))


def replay(case, ctx):
    import warnings
    warnings.simplefilter('ignore')
    if case.get('directed') == 'comment-only':
        check_comment_only(ctx)
        return
    run_case(ctx, case['index'], case['case_seed'])


def classify(v):
    # known finding by mechanism: inside one statement a '>>> '-prefixed continuation line is followed by an
    # unprefixed string line and a want comes directly after -> the chunk is cut in the middle of the string
    if v.get('mechanism') == 'not-collected-once' and 'mixed-continuation-then-want' in v['case'].get('features', ()):
        if '_package_groups' in v.get('message', ''):
            return 'mixed-prompt-string-want'
    return None


LEVEL_TEXT = ("Exploration: thousands of generated programs x 3 layouts are executed by the real parser and runner while "
              "the interpreter boundary (compile/exec audit events), an in-namespace event log with unique ids, the "
              "namespace at clear() time and logged_stdout are recorded; each recording is compared with the plain "
              "execution of the de-prompted program.  Held = no difference on the executions produced.")
LEVEL_NOTE = ("Trusted: CPython's compile/exec as the reference semantics, sys.addaudithook event delivery, the generator's "
              "own well-formedness (programs that fail in the reference run abort the check as a harness error).  Statement "
              "kinds and layouts outside the grammar are not observed.")
TECHNIQUE = "runtime monitor: audit-hook compile/exec log + unique-id event log + namespace snapshot, differential oracle = plain exec of the de-prompted program"

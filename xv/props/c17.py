"""
C17 - Module name <-> path resolution agrees with Python's import system.

Random directory trees (nested packages, modules, package and module of the same name, directories
without __init__.py at any level, __main__.py files, underscores); every name present in the tree and
some absent ones.  Oracle: CPython's importlib.machinery.FileFinder with the source loader applied
part by part along the dotted name, each intermediate part having to be a regular package.
Also: modpath_to_modname round trip, split_modpath, import_module_from_path (+ M-D sys.path check).
"""
import os
import contextlib
import io
import sys
import random
import shutil
import warnings
import importlib.machinery as M

from xv import monitors

PROPERTY = 'C17'
LEVEL = 'exploration'
RULE = ("directory trees of depth <= 3 built from names {a, b, c, pkg_x, mod_y, _p, test__init__, run__main__, __init__x} where each name becomes a module, a "
        "regular package, a directory without __init__.py, both a module and a package, a module beside a plain directory of the same name, a compiled extension module (alone, or beside a source module of the same name), or a package with __main__.py; for "
        "every dotted name derivable from the tree (files, directories, intermediate names) plus absent names the "
        "resolution is compared with FileFinder; found paths go through modpath_to_modname, split_modpath and "
        "import_module_from_path.  Non-trivial = the name has at least two parts or names a directory; distinct by "
        "(tree listing, name) hash.  Plus the interpreter's own installation: about 600 standard-library and site-packages "
        "module names (real extension modules, packages) against importlib.util.find_spec")
ASSUMPTIONS = [
    "PEP 420 namespace packages count as 'not found' (xdoctest documents no PEP 420 support); .pyc-only modules are "
    "not generated; extension modules are empty files carrying one of the interpreter's EXTENSION_SUFFIXES (located, "
    "never loaded); an extension module beside a source module of the same name is finding F19",
    "modname_to_modpath is called with hide_init=False so that a package resolves to its __init__.py, which is what "
    "spec.origin names",
    "top-level names carry a per-tree suffix so that sys.modules never aliases two trees",
]
NSHARDS = {'quick': 16, 'thorough': 16}
RULE += (' Search-path shapes: empty list / tuple, several entries, an entry spelled with trailing separator / dot / symlink, the empty string, plain directories named like the parent packages before and behind the tree (the given list must come back unchanged); packages that re-export a function named like its submodule; package __main__ files imported by path; zip archives.')
NAMES = ['a', 'b', 'c', 'pkg_x', 'mod_y', '_p', 'test__init__', 'run__main__', '__init__x']


def required_cells(tier):
    return ['resolve:found-module', 'resolve:found-package', 'resolve:absent', 'resolve:broken-chain',
            'resolve:module-and-package', 'roundtrip', 'split', 'import', 'resolve:main-file',
            'import:failing-leaves-syspath', 'resolve:module-beside-plain-directory', 'import:root-already-on-syspath', 'resolve:extension-module', 'installation:file', 'installation:roundtrip', 'history:resolve-after-deleted', 'history:resolve-after-created', 'history:init-removed', 'history:init-added', 'path-to-name:every-file', 'search-path-spelling:trailing-sep', 'search-path-spelling:symlink',
            'search-path-spelling:dot', 'search-path-shape:empty-list:nothing', 'search-path-shape:empty-tuple:nothing',
            'search-path-shape:nothing-there:nothing', 'search-path-shape:second-entry:found',
            'search-path-shape:first-entry:found', 'search-path-shape:tuple:found',
            'search-path-shape:plain-directories-named-like-the-packages-come-first:found',
            'search-path-shape:plain-directories-named-like-the-packages-come-last:found',
            'search-path-shape:empty-string-entry:found',
            'import:requested-file-wins-a-name-conflict', 'import:zip-archive:ok', 'import:zip-archive:raises',
            'resolve:through-a-symlink-below-the-root', 'import:submodule-name-rebound-by-the-package',
            'import:package-main-file']


def build(rng, root, uniq):
    feats = set()

    def mk(d, depth):
        names = rng.sample(NAMES, rng.randint(1, 3))
        for n in names:
            n2 = n if depth > 0 else '%s_%s' % (n, uniq)
            kind = rng.choice(['mod', 'pkg', 'nsdir', 'both', 'pkg_main', 'modraise', 'mod_nsdir', 'ext', 'ext_and_py'])
            if kind in ('ext', 'ext_and_py'):
                # a compiled extension module (an empty file with one of the interpreter's own suffixes: it is
                # only ever located, never loaded)
                with open(os.path.join(d, n2 + rng.choice(M.EXTENSION_SUFFIXES)), 'w') as f:
                    f.write('')
                if kind == 'ext_and_py':
                    with open(os.path.join(d, n2 + '.py'), 'w') as f:
                        f.write('NAME = %r\n' % n2)
                feats.add(kind)
                continue
            if kind == 'modraise':
                with open(os.path.join(d, n2 + '.py'), 'w') as f:
                    f.write('raise RuntimeError("XV_IMPORT_FAILS")\n')
            if kind in ('mod', 'both', 'mod_nsdir'):
                with open(os.path.join(d, n2 + '.py'), 'w') as f:
                    f.write('NAME = %r\n' % n2)
            if kind in ('pkg', 'both', 'pkg_main', 'nsdir', 'mod_nsdir'):
                sub = os.path.join(d, n2)
                os.makedirs(sub, exist_ok=True)
                if kind == 'mod_nsdir':
                    # a resource directory next to the module of the same name: the module wins
                    with open(os.path.join(sub, 'data.txt'), 'w') as f:
                        f.write('x\n')
                if kind not in ('nsdir', 'mod_nsdir'):
                    with open(os.path.join(sub, '__init__.py'), 'w') as f:
                        f.write('NAME = %r\n' % n2)
                if kind == 'pkg_main':
                    with open(os.path.join(sub, '__main__.py'), 'w') as f:
                        f.write('X = 1\n')
                if depth < 2:
                    mk(sub, depth + 1)
                if kind not in ('nsdir', 'mod_nsdir') and rng.random() < 0.3:
                    # the package re-exports a function named like the submodule that defines it (from .tqdm import
                    # tqdm): the package attribute of that name is the function, sys.modules still holds the module
                    for fn in sorted(os.listdir(sub)):
                        child = fn[:-3]
                        cpath = os.path.join(sub, fn)
                        if (fn.endswith('.py') and child.isidentifier() and not child.startswith('__')
                                and not os.path.isdir(os.path.join(sub, child))
                                and not any(os.path.exists(os.path.join(sub, child + sfx)) for sfx in M.EXTENSION_SUFFIXES)
                                and 'XV_IMPORT_FAILS' not in open(cpath).read()):
                            with open(cpath, 'a') as f:
                                f.write('def %s():\n    return NAME\n' % child)
                            with open(os.path.join(sub, '__init__.py'), 'a') as f:
                                f.write('from .%s import %s\n' % (child, child))
                            feats.add('package-rebinds-the-submodule-name')
                            break
            feats.add(kind)
    mk(root, 0)
    if rng.random() < 0.5:
        # symbolic links BELOW the search-path entry: a package directory and a module file that live elsewhere under
        # other names.  Names, paths and imports follow the link names, the way the interpreter sees the tree
        store = root + '_store'
        impl = os.path.join(store, 'impl_%s' % uniq)
        os.makedirs(os.path.join(impl, 'subp'))
        for rel in ('__init__.py', 'mod_a.py', 'subp/__init__.py', 'subp/leaf.py'):
            with open(os.path.join(impl, rel), 'w') as f:
                f.write('NAME = %r\n' % rel)
        with open(os.path.join(store, 'plugin_impl_%s.py' % uniq), 'w') as f:
            f.write('NAME = "plugin"\n')
        os.symlink(impl, os.path.join(root, 'alias_%s' % uniq))
        os.symlink(os.path.join(store, 'plugin_impl_%s.py' % uniq), os.path.join(root, 'linkmod_%s.py' % uniq))
        feats.add('symlinks-below-the-root')
    return feats


def oracle(root, modname):
    """what the interpreter would import from `root`: regular packages only, part by part"""
    loaders = [(M.ExtensionFileLoader, M.EXTENSION_SUFFIXES), (M.SourceFileLoader, ['.py'])]
    parts = modname.split('.')
    path = root
    spec = None
    for i, p in enumerate(parts):
        ff = M.FileFinder(path, *loaders)
        spec = ff.find_spec(p)
        if spec is None or spec.loader is None:
            return None, ('absent' if i == len(parts) - 1 and spec is None else 'broken-chain')
        if i < len(parts) - 1:
            if not spec.submodule_search_locations:
                return None, 'broken-chain'
            path = spec.submodule_search_locations[0]
    return spec.origin, ('found-package' if spec.submodule_search_locations else 'found-module')


def source_beside_extension(got, exp):
    """F19's mechanism: the interpreter names an extension module, xdoctest the source file next to it"""
    return bool(got and exp and exp.endswith(tuple(M.EXTENSION_SUFFIXES)) and got.endswith('.py') and
                os.path.realpath(os.path.dirname(got)) == os.path.realpath(os.path.dirname(exp)))


def model_path_to_name(path):
    """the dotted name of a source file: walk up while the directory is a regular package"""
    d, f = os.path.split(path)
    parts = [f[:-3]]
    while os.path.isfile(os.path.join(d, '__init__.py')):
        d, b = os.path.split(d)
        parts.insert(0, b)
    return '.'.join(parts), d


def check_every_file(ctx, root, case, when):
    """path -> name for every source file of the tree, also the ones no dotted name reaches from the root"""
    from xdoctest.utils import util_import
    ok = True
    for dp, dn, fn in os.walk(root):
        for f in sorted(fn):
            if not f.endswith('.py') or f in ('__init__.py', '__main__.py'):
                continue
            path = os.path.join(dp, f)
            exp_name, exp_dir = model_path_to_name(path)
            ctx.evaluation()
            try:
                name = util_import.modpath_to_modname(path)
                dpath, rel = util_import.split_modpath(path)
            except Exception as ex:
                ctx.violation('path-to-name-raised', '%s: modpath_to_modname / split_modpath(%r) raised %r' % (
                    when, os.path.relpath(path, root), ex), dict(case, path=os.path.relpath(path, root)))
                ok = False
                continue
            if name != exp_name or os.path.realpath(dpath) != os.path.realpath(exp_dir):
                ctx.violation('path-to-name', '%s: modpath_to_modname(%r) -> %r and split_modpath -> (%r, %r); walking up the '
                              'regular packages gives %r below %r' % (when, os.path.relpath(path, root), name,
                                                                      os.path.relpath(dpath, root), rel, exp_name,
                                                                      os.path.relpath(exp_dir, root)),
                              dict(case, path=os.path.relpath(path, root)))
                ok = False
    return ok


def all_names(root):
    out = set()
    for dp, dn, fn in os.walk(root, followlinks=True):
        rel = os.path.relpath(dp, root)
        base = [] if rel == '.' else rel.split(os.sep)
        for f in fn:
            if f.endswith('.py') and f != '__init__.py':
                out.add('.'.join(base + [f[:-3]]))
            for suf in M.EXTENSION_SUFFIXES:
                if f.endswith(suf):
                    out.add('.'.join(base + [f[:-len(suf)]]))
                    break
        for d in dn:
            out.add('.'.join(base + [d]))
    absent = set()
    for n in sorted(out)[:6]:
        absent.add(n + '.nope')
        absent.add(n + '_x')
    absent.add('zz_absent')
    out |= absent
    out.discard('')
    return sorted(out)


def check_tree(ctx, idx, seed):
    from xdoctest.utils import util_import
    rng = random.Random(seed)
    root = os.path.join(ctx.tmp, 'r17_%d_%d' % (ctx.shard, idx))
    os.mkdir(root)
    uniq = 's%dx%dx%d' % (ctx.seed, ctx.shard, idx)
    try:
        tree_feats = build(rng, root, uniq)
        link = root + '_link'
        os.symlink(root, link)
        listing = sorted(os.path.relpath(os.path.join(dp, f), root) for dp, _, fn in os.walk(root) for f in fn)
        names = all_names(root)
        # ---- shapes of the search path itself: empty (list / tuple), a directory that holds nothing, several entries
        empty_dir = root + '_empty'
        os.mkdir(empty_dir)
        shadow_dir = root + '_shadow'
        os.mkdir(shadow_dir)
        dotted_found = [n for n in names if '.' in n and oracle(root, n)[0]]
        for name in rng.sample(names, min(4, len(names))) + rng.sample(dotted_found, min(2, len(dotted_found))) + ['os', 'json', 'xdoctest']:
            exp, cls = oracle(root, name)
            shapes = [('empty-list', [], None), ('empty-tuple', (), None), ('nothing-there', [empty_dir], None),
                      ('second-entry', [empty_dir, root], exp), ('first-entry', [root, empty_dir], exp),
                      ('tuple', (root,), exp)]
            if '.' in name and exp:
                # an earlier entry holds plain directories (data, build output) named like the parent packages: a regular
                # package further down the search path wins over directories without __init__.py
                os.makedirs(os.path.join(shadow_dir, *name.split('.')[:-1]), exist_ok=True)
                with open(os.path.join(shadow_dir, *(name.split('.')[:-1] + ['notes.txt'])), 'w') as f:
                    f.write('x\n')
                shapes.append(('plain-directories-named-like-the-packages-come-first', [shadow_dir, root], exp))
                shapes.append(('plain-directories-named-like-the-packages-come-last', [root, shadow_dir], exp))
            shapes.append(('empty-string-entry', ['', root], exp))
            for shape, sps, want in shapes:
                ctx.evaluation()
                case = {'index': idx, 'case_seed': seed, 'name': name, 'search_path_shape': shape}
                for hide_main in (False, True):
                    w = want
                    if w and hide_main and os.path.basename(w) == '__main__.py':
                        continue
                    given = list(sps) if isinstance(sps, list) else None
                    try:
                        got = util_import.modname_to_modpath(name, hide_init=False, hide_main=hide_main, sys_path=sps)
                    except Exception as ex:
                        ctx.violation('resolve-raised', 'modname_to_modpath(%r, sys_path=%s) raised %r; tree %r' % (
                            name, shape, ex, listing), case)
                        continue
                    ctx.event('resolutions_compared')
                    if given is not None and sps != given:
                        ctx.violation('search-path-changed', 'modname_to_modpath(%r, sys_path=%r) changed the list it was given to %r' % (
                            name, given, sps), case)
                        sps[:] = given
                        continue
                    if (got and os.path.realpath(got)) != (w and os.path.realpath(w)):
                        ctx.violation('resolve', 'modname_to_modpath(%r, hide_main=%r, sys_path=<%s>) -> %r but the import system, '
                                      'given that search path, would load %r; tree %r' % (
                                          name, hide_main, shape, got, w and os.path.relpath(w, root), listing), case,
                                      observed=got, expected=w, source_beside_extension=source_beside_extension(got, w))
                    else:
                        ctx.cell('search-path-shape:' + shape + (':found' if w else ':nothing'))
        for name in names:
            ctx.evaluation()
            case = {'index': idx, 'case_seed': seed, 'name': name}
            exp, cls = oracle(root, name)
            if '.' in name or os.path.isdir(os.path.join(root, name)):
                ctx.nontrivial((repr(listing), name))
            # the search-path entry may be spelled in several ways that all denote the same directory
            spelling = rng.choice(['plain', 'plain', 'plain', 'trailing-sep', 'double-sep', 'dot', 'symlink', 'symlink-sep'])
            sp = {'plain': root, 'trailing-sep': root + os.sep, 'double-sep': root + os.sep + os.sep,
                  'dot': os.path.join(root, '.'), 'symlink': link, 'symlink-sep': link + os.sep}[spelling]
            case['search_path_spelling'] = spelling
            try:
                got = util_import.modname_to_modpath(name, hide_init=False, sys_path=[sp])
            except Exception as ex:
                ctx.violation('resolve-raised', 'modname_to_modpath(%r, sys_path=[%r]) raised %r; tree %r' % (name, sp, ex, listing), case)
                continue
            ctx.event('resolutions_compared')
            if got and spelling != 'plain':
                ctx.cell('search-path-spelling:' + spelling)
            if (got and os.path.realpath(got)) != (exp and os.path.realpath(exp)):
                ctx.violation('resolve', 'modname_to_modpath(%r, sys_path=[root]) -> %r but the import system would load %r '
                              '(%s); tree %r' % (name, got and os.path.relpath(got, root), exp and os.path.relpath(exp, root),
                                                 cls, listing), case, observed=got, expected=exp,
                              source_beside_extension=source_beside_extension(got, exp))
                continue
            ctx.cell('resolve:' + cls)
            parts = name.split('.')
            if cls == 'found-package' and os.path.isfile(os.path.join(root, *parts) + '.py'):
                ctx.cell('resolve:module-and-package')
            if parts[-1] == '__main__' and got:
                ctx.cell('resolve:main-file')
            if got and 'symlinks-below-the-root' in tree_feats and parts[0].startswith(('alias_', 'linkmod_')):
                ctx.cell('resolve:through-a-symlink-below-the-root')
            if cls == 'found-module' and os.path.isdir(os.path.join(root, *parts)):
                ctx.cell('resolve:module-beside-plain-directory')
            if not got:
                continue
            # ---- round trip
            back = util_import.modpath_to_modname(got)
            if back != name:
                ctx.violation('roundtrip', 'modpath_to_modname(%r) -> %r, expected %r; tree %r' % (
                    os.path.relpath(got, root), back, name, listing), case)
                continue
            ctx.cell('roundtrip')
            dpath, rel = util_import.split_modpath(got)
            if os.path.realpath(dpath) != os.path.realpath(root) or \
                    os.path.realpath(os.path.join(dpath, rel)) != os.path.realpath(got):
                ctx.violation('split', 'split_modpath(%r) -> (%r, %r): the first must be the search-path directory %r and '
                              'joined they must give the path back; tree %r' % (got, dpath, rel, root, listing), case)
                continue
            ctx.cell('split')
            if got.endswith(tuple(M.EXTENSION_SUFFIXES)):
                ctx.cell('resolve:extension-module')
                continue        # located only: the file is empty
            # ---- import by path
            if name == '__main__':
                continue        # (a __main__.py outside any package: that name belongs to the running program)
            if parts[-1] == '__main__':
                ctx.cell('import:package-main-file')
            # sometimes the tree is already on sys.path (front / middle) when a module is imported by its path
            original_path = list(sys.path)
            where = rng.choice(['absent', 'absent', 'front', 'middle'])
            if where == 'front':
                sys.path.insert(0, root)
            elif where == 'middle':
                sys.path.insert(len(sys.path) // 2, root)
            before = monitors.ProcState()
            try:
                mod = util_import.import_module_from_path(got)
                err = None
            except Exception as ex:
                mod, err = None, ex
            after = monitors.ProcState()
            d = [x for x in before.diff(after) if x[0] == 'sys.path']
            if not d and list(sys.path) != before.path:
                d = [('sys.path', 'order changed', 'the same entries in another order')]
            sys.path[:] = original_path
            if where != 'absent' and not d:
                ctx.cell('import:root-already-on-syspath')
            ctx.event('imports_monitored')
            raises = 'XV_IMPORT_FAILS' in open(got).read()
            if raises:
                if err is None:
                    ctx.violation('import', 'importing a module that raises returned %r' % (mod,), case)
                elif d:
                    ctx.violation('import-syspath', 'a failing import_module_from_path(%r) left sys.path changed: %r' % (
                        os.path.relpath(got, root), d), case)
                else:
                    ctx.cell('import:failing-leaves-syspath')
                continue
            if err is not None:
                ctx.violation('import', 'import_module_from_path(%r) raised %r; tree %r' % (
                    os.path.relpath(got, root), err, listing), case)
                continue
            if mod.__name__ != name:
                ctx.violation('import', 'import_module_from_path(%r) returned module %r, expected %r' % (
                    os.path.relpath(got, root), mod.__name__, name), case)
                continue
            mf = getattr(mod, '__file__', None)
            if not mf or os.path.realpath(mf) != os.path.realpath(got):
                ctx.violation('import', 'import_module_from_path(%r) returned a module loaded from %r' % (got, mf), case)
                continue
            if d:
                ctx.violation('import-syspath', 'import_module_from_path(%r) changed sys.path: %r' % (got, d), case)
                continue
            ctx.cell('import')
            if mod is not sys.modules.get(name):
                ctx.violation('import', 'import_module_from_path(%r) returned %r, which is not sys.modules[%r]' % (got, mod, name),
                              case)
                continue
            try:
                pinit = open(os.path.join(os.path.dirname(got), '__init__.py')).read()
            except OSError:
                pinit = ''
            if 'from .%s import %s\n' % (parts[-1], parts[-1]) in pinit:
                ctx.cell('import:submodule-name-rebound-by-the-package')
            if rng.random() < 0.35:
                # two entries on sys.path hold a top-level module of this name, the other one comes first;
                # import_module_from_path(path, index=0) is the documented way to make the requested file win
                import importlib
                top = name.split('.')[0]
                shadow = root + '_shadow'
                os.makedirs(shadow, exist_ok=True)
                spath = os.path.join(shadow, top + '.py')
                with open(spath, 'w') as f:
                    f.write('SHADOW = 1\n')
                for m in [m for m in sys.modules if m == top or m.startswith(top + '.')]:
                    del sys.modules[m]
                importlib.invalidate_caches()
                sys.path.insert(0, shadow)
                sys.path.append(root)
                held = list(sys.path)
                try:
                    mod2, err2 = util_import.import_module_from_path(got, index=0), None
                except Exception as ex:
                    mod2, err2 = None, ex
                now = list(sys.path)
                sys.path[:] = original_path
                for m in [m for m in sys.modules if m == top or m.startswith(top + '.')]:
                    del sys.modules[m]
                os.unlink(spath)
                importlib.invalidate_caches()
                mf2 = getattr(mod2, '__file__', None)
                if err2 is not None or not mf2 or os.path.realpath(mf2) != os.path.realpath(got):
                    ctx.violation('import-shadowed', 'import_module_from_path(%r, index=0) with another sys.path entry holding a '
                                  'module %r in front: %s' % (os.path.relpath(got, root), top,
                                                              'raised %r' % (err2,) if err2 is not None else
                                                              'returned a module loaded from %r' % (mf2,)), case)
                    continue
                if now != held:
                    ctx.violation('import-syspath', 'import_module_from_path(%r, index=0) changed sys.path' % (got,), case)
                    continue
                ctx.cell('import:requested-file-wins-a-name-conflict')
        # ---- modules inside a zip archive (the documented 'archive.zip/inner.py' form): the module of that name, and
        # the whole process state (sys.path, warning filters, streams, cwd) as it was, also when the import fails
        if idx % 3 == 1:
            import zipfile
            zpath = root + '_arch.zip'
            zname = 'zmod_%s' % uniq
            with zipfile.ZipFile(zpath, 'w') as zf:
                zf.writestr(zname + '.py', 'VALUE = %d\n' % idx)
                zf.writestr('zbad_%s.py' % uniq, 'raise ValueError("XV_IMPORT_FAILS")\n')
            for inner, expect in ((zname, 'ok'), ('zbad_%s' % uniq, 'raises'), ('zmissing_%s' % uniq, 'raises')):
                ctx.evaluation()
                case = {'index': idx, 'case_seed': seed, 'name': inner, 'zip': True}
                before = monitors.ProcState()
                with contextlib.redirect_stdout(io.StringIO()):
                    try:
                        mod, err = util_import.import_module_from_path(zpath + '/' + inner + '.py'), None
                    except Exception as ex:
                        mod, err = None, ex
                d = before.diff(monitors.ProcState())
                ctx.event('imports_monitored')
                if d:
                    ctx.violation('import-procstate', 'import_module_from_path(<zip>/%s.py) (%s) left the process changed: %r' % (
                        inner, expect, d), case)
                    warnings.filters[:] = before.filters
                    sys.path[:] = before.path
                    continue
                if expect == 'ok' and (err is not None or getattr(mod, 'VALUE', None) != idx or mod.__name__ != inner):
                    ctx.violation('import', 'import_module_from_path(<zip>/%s.py) -> %r / %r' % (inner, mod, err), case)
                    continue
                if expect == 'raises' and err is None:
                    ctx.violation('import', 'import_module_from_path(<zip>/%s.py) returned %r' % (inner, mod), case)
                    continue
                ctx.cell('import:zip-archive:' + expect)
            os.unlink(zpath)
        # ---- history: the tree changes between two resolutions in the same process (files appear and disappear);
        # every answer must describe the tree as it is at that moment
        if idx % 2 == 0:
            names = all_names(root)
            found = [n for n in names if oracle(root, n)[0] and not oracle(root, n)[0].endswith('__init__.py')]
            absent = [n for n in names if oracle(root, n)[0] is None and '.' not in n]
            steps = []
            if found:
                victim = rng.choice(found)
                os.unlink(oracle(root, victim)[0])
                steps.append(('deleted', victim))
            if absent:
                newn = rng.choice(absent)
                if not os.path.exists(os.path.join(root, newn)):
                    with open(os.path.join(root, newn + '.py'), 'w') as f:
                        f.write('NAME = 1\n')
                    steps.append(('created', newn))
            for what, n in steps:
                ctx.evaluation()
                exp, cls = oracle(root, n)
                got = util_import.modname_to_modpath(n, hide_init=False, sys_path=[root])
                if (got and os.path.realpath(got)) != (exp and os.path.realpath(exp)):
                    ctx.violation('resolve-after-change', 'after the file of %r was %s (same process, resolved before): '
                                  'modname_to_modpath -> %r, the import system would load %r' % (n, what, got, exp),
                                  dict(case, name=n), observed=got, expected=exp,
                                  source_beside_extension=source_beside_extension(got, exp))
                else:
                    ctx.cell('history:resolve-after-' + what)
        if check_every_file(ctx, root, {'index': idx, 'case_seed': seed}, 'as built'):
            ctx.cell('path-to-name:every-file')
        # ---- history 2: a directory becomes a package (an __init__.py is added) or stops being one (it is deleted)
        # after paths below it were already resolved, split and converted back in this process
        if idx % 2 == 1:
            dirs = [os.path.join(dp, d) for dp, dn, _ in os.walk(root) for d in dn if d != '__pycache__']
            rng.shuffle(dirs)
            flipped = None
            for d in dirs[:1]:
                ini = os.path.join(d, '__init__.py')
                if os.path.exists(ini):
                    os.unlink(ini)
                    flipped = ('init-removed', d)
                else:
                    with open(ini, 'w') as f:
                        f.write('')
                    flipped = ('init-added', d)
            if flipped:
                okh = True
                for name in all_names(root):
                    exp, cls = oracle(root, name)
                    ctx.evaluation()
                    case = {'index': idx, 'case_seed': seed, 'name': name, 'history': flipped[0]}
                    got = util_import.modname_to_modpath(name, hide_init=False, sys_path=[root])
                    sbe = source_beside_extension(got, exp)
                    if (got and os.path.realpath(got)) != (exp and os.path.realpath(exp)):
                        ctx.violation('resolve-after-change', 'after %s in %r (same process, everything resolved before): '
                                      'modname_to_modpath(%r) -> %r, the import system would load %r' % (
                                          flipped[0], os.path.relpath(flipped[1], root), name, got, exp), case,
                                      observed=got, expected=exp, source_beside_extension=sbe)
                        okh = False
                        continue
                    if not got:
                        continue
                    back = util_import.modpath_to_modname(got)
                    dpath, rel = util_import.split_modpath(got)
                    if back != name or os.path.realpath(dpath) != os.path.realpath(root):
                        ctx.violation('roundtrip-after-change', 'after %s in %r (same process, everything resolved before): '
                                      'modpath_to_modname(%r) -> %r (expected %r), split_modpath -> (%r, %r)' % (
                                          flipped[0], os.path.relpath(flipped[1], root), os.path.relpath(got, root), back, name,
                                          dpath, rel), case)
                        okh = False
                if not check_every_file(ctx, root, {'index': idx, 'case_seed': seed, 'history': flipped[0]},
                                        'after %s in %r (same process, everything resolved before)' % (
                                            flipped[0], os.path.relpath(flipped[1], root))):
                    okh = False
                if okh:
                    ctx.cell('history:' + flipped[0])
        if ctx.shard == 0:
            ctx.sample({'tree': listing, 'names_resolved': all_names(root)[:12]}, limit=2)
    finally:
        shutil.rmtree(root, ignore_errors=True)
        shutil.rmtree(root + '_empty', ignore_errors=True)
        shutil.rmtree(root + '_shadow', ignore_errors=True)
        shutil.rmtree(root + '_store', ignore_errors=True)
        try:
            os.unlink(root + '_link')
        except OSError:
            pass
        for m in [m for m in sys.modules if uniq in m]:
            del sys.modules[m]


def check_installation(ctx):
    """the interpreter's own installation as a tree: every standard-library / site-packages module name the import
    system can locate as a file must resolve to that file (real extension modules, packages; frozen modules are left out)"""
    import pkgutil
    import importlib.util
    from xdoctest.utils import util_import
    names = set(sys.stdlib_module_names)
    for m in pkgutil.iter_modules():
        names.add(m.name)
    for pkg in ['json', 'email', 'xml.dom', 'xml.etree', 'concurrent.futures', 'importlib', 'unittest', 'asyncio',
                'collections', 'urllib', 'http', 'logging', 'multiprocessing', 'xdoctest', 'xdoctest.utils', '_pytest']:
        try:
            spec = importlib.util.find_spec(pkg)
        except Exception:
            continue
        if spec and spec.submodule_search_locations:
            for m in pkgutil.iter_modules(spec.submodule_search_locations):
                names.add(pkg + '.' + m.name)
    for n in sorted(names)[ctx.shard::ctx.nshards]:
        try:
            spec = importlib.util.find_spec(n)
        except Exception:
            continue
        org = spec.origin if spec else None
        if org == 'frozen':
            continue            # frozen modules (and their aliases) are not loaded from a file at all
        real = org if org and os.path.exists(org) else None
        ctx.evaluation()
        case = {'corpus': 'installation', 'name': n}
        try:
            got = util_import.modname_to_modpath(n, hide_init=False)
        except Exception as ex:
            ctx.violation('resolve-raised', 'modname_to_modpath(%r) raised %r' % (n, ex), case)
            continue
        if (got and os.path.realpath(got)) != (real and os.path.realpath(real)):
            ctx.violation('resolve', 'modname_to_modpath(%r) -> %r, the import system locates %r (sys.path as it is)' % (n, got, real),
                          case, observed=got, expected=real,
                          source_beside_extension=source_beside_extension(got, real))
            continue
        ctx.cell('installation:' + ('file' if real else 'not-a-file'))
        if real and '.' in n:
            ctx.nontrivial(('installation', n))
        if real:
            back = util_import.modpath_to_modname(got)
            if back != n:
                ctx.violation('roundtrip', 'modpath_to_modname(%r) -> %r, expected %r' % (got, back, n), case)
            else:
                ctx.cell('installation:roundtrip')


def run_shard(ctx):
    warnings.simplefilter('ignore')
    n = ctx.pick(320, 4000)
    for idx in ctx.my_indices(n):
        check_tree(ctx, idx, ctx.case_seed(idx))
    check_installation(ctx)


def replay(case, ctx):
    warnings.simplefilter('ignore')
    if case.get('corpus') == 'installation':
        check_installation(ctx)
        return
    check_tree(ctx, case['index'], case['case_seed'])


def classify(v):
    # F19 by mechanism: an extension module and a source module of the same name in one directory; the
    # interpreter loads the extension, xdoctest names the source file
    if v.get('mechanism') in ('resolve', 'resolve-after-change') and v.get('source_beside_extension') is True:
        return 'source-preferred-over-extension'
    return None


LEVEL_TEXT = ("Exploration by differential monitoring: for every name of hundreds/thousands of generated trees the resolution "
              "is compared with CPython's own FileFinder applied part by part; found paths are converted back, split and "
              "imported, with a sys.path snapshot around the import.")
LEVEL_NOTE = ("Trusted: importlib.machinery.FileFinder + ExtensionFileLoader / SourceFileLoader as the import system's behaviour for regular "
              "packages and source modules; namespace packages are deliberately 'not found'.")
TECHNIQUE = "runtime monitor: differential oracle against importlib FileFinder over generated directory trees; round-trip and sys.path before/after checks"

"""
C07 - Collection is exact: every documented callable yields its doctests once.

Generated module sources and package trees with an independently known inventory (the
generator's manifest: which callable holds which uniquely marked example blocks, and which
marked blocks must never be collected).  Observed through core.parse_doctestables(static),
static_analysis.parse_static_calldefs and the `xdoctest <mod> list` CLI.
"""
import io
import os
import sys
import random
import shutil
import warnings
import contextlib
import subprocess

from xv import gen_modules as gm

PROPERTY = 'C07'
LEVEL = 'exploration'
RULE = ("module sources with a module docstring, def / async def / functools.wraps-decorated functions, classes (plain, "
        "decorated) with plain / static / class / wrapped / async methods, __init__, property getters, setters and deleters "
        "under the same name, nested classes with methods, functions and classes nested in functions, definitions under "
        "'if True:', 'try:', 'with', and under the __main__ guard; docstrings in google layout (1..3 Example:/Doctest:/"
        "Examples: blocks among Args: etc.), freeform layout (groups separated by prose) or without doctests; every example "
        "block prints a unique marker.  Each module is collected under google, freeform and auto style.  Package trees of "
        "random depth with __init__.py present or missing at any level and stray directories.  Non-trivial = the module has "
        "at least one callable that must be collected and one marked block that must not; distinct by source hash")
ASSUMPTIONS = [
    "the __main__ guard is written in its canonical form  if __name__ == '__main__':",
    "PEP 420 namespace packages are not collected (xdoctest documents no support); a directory without __init__.py ends "
    "the walk",
    "every callable name is defined once per scope (redefinitions have no documented meaning), except a property getter declared again through its own accessor (@x.getter), where the later definition is the property",
]
NSHARDS = {'quick': 16, 'thorough': 16}
RULE += (" Docstring layouts added during the build: google blocks that go on behind empty lines, bodies at the header's own indentation, an empty line under the header, headers in other spellings, left-out freeform blocks of several parts.")
STYLES = ['google', 'freeform', 'auto']


def required_cells(tier):
    return ['style:google', 'style:freeform', 'style:auto', 'feature:async', 'feature:nested-func',
            'feature:class-in-func', 'feature:method:setter', 'feature:method:deleter', 'feature:method:nestedcls',
            'feature:top:main', 'feature:module-docstring', 'feature:top:adeco', 'feature:top:ctxmgr', 'feature:top:subclass', 'feature:top:handler', 'feature:top:matcharm', 'feature:top:tryelse', 'feature:top:forbody', 'feature:method:setter_stacked', 'feature:method:getter_again', 'feature:top:notmain', 'feature:top:bytesdoc', 'feature:main-guard-else', 'feature:google-header-on-the-opening-line', 'feature:google-headers-in-other-spellings', 'feature:method:ctxmethod', 'feature:top:rewrap', 'feature:method:rewrapped', 'feature:google-block-goes-on-behind-empty-lines', 'feature:freeform-block-left-out', 'feature:google-body-at-the-indentation-of-its-header', 'feature:google-empty-line-under-the-header', 'tree:missing-init', 'tree:ok', 'tree:holds-an-unparsable-module', 'history:file-edited-then-collected-again', 'history:repaired-after-a-syntax-error', 'tree:by-name:not-imported', 'tree:by-name:imported', 'tree:by-name:same-name-in-the-working-directory',
            'cli-list', 'calldefs']


def collect(path, style, analysis='static'):
    from xdoctest import core
    with warnings.catch_warnings(record=True) as wl, contextlib.redirect_stdout(io.StringIO()):
        warnings.simplefilter('always')
        exs = list(core.parse_doctestables(path, style=style, analysis=analysis))
    return exs, wl


def compare(ctx, spec, style, exs, case, what='parse_doctestables'):
    exp = gm.expected_collection(spec, style)
    obs, dups = gm.observed_collection(exs)

    def bad(mech, msg):
        ctx.violation(mech, '%s (style=%s, via %s)\n--- module ---\n%s' % (msg, style, what, spec.src), case, style=style)

    if dups:
        bad('duplicate-identifier', 'identifiers collected twice: %r' % (dups,))
        return False
    missing = sorted(set(exp) - set(obs))
    extra = sorted(set(obs) - set(exp))
    if missing or extra:
        why = {}
        for k in extra:
            for m in obs[k]:
                if m in spec.forbidden:
                    why[m] = spec.forbidden[m]
        bad('inventory', 'collection differs from the inventory: missing %r, unexpected %r %s' % (
            ['%s:%d' % k for k in missing], ['%s:%d' % k for k in extra], ('(%r)' % why) if why else ''))
        return False
    for k in exp:
        if obs[k] != exp[k]:
            bad('wrong-block', 'doctest %s:%d holds blocks %r, the inventory says %r (blocks merged, split or re-ordered)' % (
                k[0], k[1], sorted(obs[k]), sorted(exp[k])))
            return False
    return True


def check_module(ctx, idx, seed):
    from xdoctest import static_analysis
    rng = random.Random(seed)
    spec = gm.ModuleGen(rng, idx).generate()
    compile(spec.src, '<gen>', 'exec')
    path = os.path.join(ctx.tmp, 'cm_%d_%d_zz.py' % (ctx.shard, idx))
    with open(path, 'w') as f:
        f.write(spec.src)
    case = {'index': idx, 'case_seed': seed, 'kind': 'module'}
    try:
        if spec.inventory and spec.forbidden:
            ctx.nontrivial(spec.src)
        for style in STYLES:
            ctx.evaluation()
            try:
                exs, wl = collect(path, style)
            except Exception as ex:
                ctx.violation('collect-raised', 'parse_doctestables raised %r\n--- module ---\n%s' % (ex, spec.src), case)
                continue
            ctx.event('collections_observed')
            ctx.event('doctests_collected', len(exs))
            if compare(ctx, spec, style, exs, case):
                ctx.cell('style:' + style)
        # calldefs: exactly the documented callables (+ undocumented ones), nothing forbidden
        calldefs = static_analysis.parse_static_calldefs(fpath=path)
        ctx.event('calldef_tables_observed')
        names = set(calldefs)
        must = set(spec.inventory)
        if not must <= names:
            ctx.violation('calldefs', 'parse_static_calldefs misses %r\n--- module ---\n%s' % (sorted(must - names), spec.src), case)
        else:
            bad = [n for n in names if n.startswith(('inner_', 'InnerC_')) or '.N' in n or n.split('.')[-1] == 'nm']
            if bad:
                ctx.violation('calldefs', 'parse_static_calldefs lists nested definitions %r\n--- module ---\n%s' % (bad, spec.src), case)
            else:
                ctx.cell('calldefs')
        for f in spec.features:
            ctx.cell('feature:' + f)
        if idx % 3 == 0:
            # history: the file is edited and collected again in the same process (an editor + watch loop, a test
            # session over a changing tree): the second collection must describe the file as it is now
            spec2 = gm.ModuleGen(random.Random(seed ^ 0x5bd1e995), idx + 500000).generate()
            with open(path, 'w') as f:
                f.write(spec2.src)
            case2 = dict(case, kind='module-edited-in-place')
            ok2 = True
            for style in STYLES:
                ctx.evaluation()
                try:
                    exs, wl = collect(path, style)
                except Exception as ex:
                    ctx.violation('collect-raised', 'parse_doctestables raised %r on the edited file' % (ex,), case2)
                    ok2 = False
                    continue
                ctx.event('collections_observed')
                if not compare(ctx, spec2, style, exs, case2, what='parse_doctestables after the file at this path was '
                               'rewritten (first version collected earlier in the same process)'):
                    ok2 = False
            if ok2:
                ctx.cell('history:file-edited-then-collected-again')
            with open(path, 'w') as f:
                f.write(spec.src)
        if idx % 3 == 1:
            # history: the file does not parse when it is first collected (a warning, nothing collected), is repaired,
            # and is collected again in the same process, through both entry points
            from xdoctest import runner
            with open(path, 'w') as f:
                f.write(spec.src + '\ndef broken(:\n')
            case3 = dict(case, kind='module-repaired-after-a-syntax-error')
            ok3 = True
            try:
                exs, wl = collect(path, 'google')
                with contextlib.redirect_stdout(io.StringIO()), warnings.catch_warnings():
                    warnings.simplefilter('ignore')
                    runner.doctest_module(path, 'list', argv=[''], verbose=1, style='google')
            except SyntaxError:
                exs = []
            except Exception as ex:
                ctx.violation('collect-raised', 'collecting a module that does not parse raised %r' % (ex,), case3)
                ok3 = False
                exs = []
            if exs:
                ctx.violation('inventory', 'a module that does not parse yields doctests %r' % ([e.callname for e in exs],), case3)
                ok3 = False
            with open(path, 'w') as f:
                f.write(spec.src)
            for style in STYLES:
                ctx.evaluation()
                try:
                    exs, wl = collect(path, style)
                except Exception as ex:
                    ctx.violation('collect-raised', 'parse_doctestables raised %r on the repaired file' % (ex,), case3)
                    ok3 = False
                    continue
                ctx.event('collections_observed')
                if not compare(ctx, spec, style, exs, case3, what='parse_doctestables after the file was repaired (it did not '
                               'parse when it was collected earlier in the same process)'):
                    ok3 = False
            # ... and through the runner's own entry point (its defaults are shared by every call in the process)
            buf = io.StringIO()
            try:
                with contextlib.redirect_stdout(buf), warnings.catch_warnings():
                    warnings.simplefilter('ignore')
                    runner.doctest_module(path, 'list', argv=[''], verbose=1, style='google')
                listed = sorted(ln.split()[-1] for ln in buf.getvalue().splitlines()
                                if ln.strip().startswith('python -m xdoctest ') and ':' in ln.split()[-1])
                exp_l = sorted('%s:%d' % k for k in gm.expected_collection(spec, 'google'))
                if listed != exp_l:
                    ctx.violation('inventory', "doctest_module(path, 'list') after the repair lists %r, the inventory says %r" % (
                        listed, exp_l), case3)
                    ok3 = False
            except Exception as ex:
                ctx.violation('collect-raised', "doctest_module(path, 'list') on the repaired file raised %r" % (ex,), case3)
                ok3 = False
            if ok3:
                ctx.cell('history:repaired-after-a-syntax-error')
        if ctx.shard == 0:
            ctx.sample({'module_source': spec.src[:1500], 'inventory': {k: v.markers for k, v in spec.inventory.items()},
                        'must_not_collect': spec.forbidden}, limit=1)
        return spec, path
    finally:
        pass


def check_cli_list(ctx, spec, path, case):
    """`python -m xdoctest <path> list` names every collected doctest (auto style)"""
    env = dict(os.environ)
    p = subprocess.run([sys.executable, '-m', 'xdoctest', path, 'list'], cwd=ctx.tmp, env=env,
                       stdout=subprocess.PIPE, stderr=subprocess.STDOUT, text=True, timeout=120)
    ctx.evaluation()
    ctx.event('cli_runs')
    exp = sorted('%s:%d' % k for k in gm.expected_collection(spec, 'auto'))
    got = sorted(ln.split()[-1] for ln in p.stdout.splitlines()
                 if ln.strip().startswith('python -m xdoctest ') and ln.split()[-1].split(':')[-1].isdigit())
    if got != exp:
        ctx.violation('cli-list', '`xdoctest <mod> list` prints %r, the inventory says %r (exit %d)\n%s\n--- module ---\n%s' % (
            got, exp, p.returncode, p.stdout[-800:], spec.src), dict(case, cli=True))
    else:
        ctx.cell('cli-list')


def check_tree(ctx, idx, seed):
    rng = random.Random(seed)
    root = os.path.join(ctx.tmp, 'tree_%d_%d' % (ctx.shard, idx))
    os.mkdir(root)
    case = {'index': idx, 'case_seed': seed, 'kind': 'tree'}
    try:
        pkg, exp, listing = gm.build_package_tree(rng, root, idx)
        ctx.evaluation()
        try:
            exs, wl = collect(pkg, 'google')
        except Exception as ex:
            ctx.violation('collect-raised', 'parse_doctestables(package) raised %r; files %r' % (ex, listing), case)
            return
        ctx.event('package_walks_observed')
        got = [m for e in exs for m in sorted(set(gm.MARK_RE.findall(e.docsrc)))]
        if len(got) != len(set(got)):
            ctx.violation('duplicate-identifier', 'a module of the package was collected twice: %r; files %r' % (
                sorted(m for m in got if got.count(m) > 1), listing), case)
            return
        if set(got) != exp:
            ctx.violation('package-walk', 'package walk collected %r beyond / missed %r of the modules reachable through an '
                          'unbroken __init__ chain; files %r' % (sorted(set(got) - exp), sorted(exp - set(got)), listing), case)
            return
        all_markers = 0
        for dp, dn, fn in os.walk(root):
            for f in fn:
                if f.endswith('.py'):
                    all_markers += len(gm.MARK_RE.findall(open(os.path.join(dp, f)).read())) // 2
        ctx.cell('tree:missing-init' if all_markers > len(exp) else 'tree:ok')
        if gm.build_package_tree.last_broken[0]:
            ctx.cell('tree:holds-an-unparsable-module')
        ctx.nontrivial(repr(listing))
        # ---- the same package named by its module NAME (its parent directory on sys.path), before and after the
        # package has been imported into this process
        pkgname = os.path.basename(pkg)
        saved_path = list(sys.path)
        sys.path.insert(0, root)
        try:
            import importlib
            for when in ('not-imported', 'imported'):
                if when == 'imported':
                    try:
                        importlib.import_module(pkgname)
                    except Exception:
                        break
                ctx.evaluation()
                # the working directory may hold an entry of the same name that is no module (a directory without
                # __init__.py, a suffix-less file): a NAME is looked up the way the interpreter imports it
                decoy = None
                old_cwd = os.getcwd()
                if idx % 2 == 0:
                    decoy = os.path.join(root, 'cwd_%s' % when)
                    os.makedirs(decoy)
                    if idx % 4 == 0:
                        os.mkdir(os.path.join(decoy, pkgname))
                    else:
                        with open(os.path.join(decoy, pkgname), 'w') as f:
                            f.write('#!/bin/sh\n')
                    os.chdir(decoy)
                try:
                    exs, wl = collect(pkgname, 'google')
                except Exception as ex:
                    ctx.violation('collect-raised', 'parse_doctestables(%r) by module name raised %r; files %r' % (pkgname, ex, listing), case)
                    break
                finally:
                    os.chdir(old_cwd)
                if decoy is not None:
                    ctx.cell('tree:by-name:same-name-in-the-working-directory')
                got = [m for e in exs for m in sorted(set(gm.MARK_RE.findall(e.docsrc)))]
                if sorted(got) != sorted(exp):
                    ctx.violation('package-walk', 'the package named by its module name (%s in this process) yields %r beyond / '
                                  'misses %r of the reachable modules; files %r' % (
                                      when, sorted(set(got) - exp), sorted(exp - set(got)), listing), dict(case, by_name=when))
                    break
                ctx.cell('tree:by-name:' + when)
        finally:
            sys.path[:] = saved_path
            for m in [m for m in sys.modules if m == pkgname or m.startswith(pkgname + '.')]:
                del sys.modules[m]
    finally:
        shutil.rmtree(root, ignore_errors=True)


def run_shard(ctx):
    warnings.simplefilter('ignore')
    n = ctx.pick(400, 6000)
    ncli = ctx.pick(12, 100)
    ntree = ctx.pick(160, 2000)
    for idx in ctx.my_indices(n):
        spec, path = check_module(ctx, idx, ctx.case_seed(idx))
        try:
            if idx < ncli:
                check_cli_list(ctx, spec, path, {'index': idx, 'case_seed': ctx.case_seed(idx), 'kind': 'module'})
        finally:
            os.unlink(path)
    for idx in ctx.my_indices(ntree):
        check_tree(ctx, idx, ctx.case_seed(10 ** 6 + idx))


def replay(case, ctx):
    warnings.simplefilter('ignore')
    if case['kind'] == 'tree':
        check_tree(ctx, case['index'], case['case_seed'])
    else:
        spec, path = check_module(ctx, case['index'], case['case_seed'])
        if case.get('cli'):
            check_cli_list(ctx, spec, path, case)
        os.unlink(path)


def classify(v):
    return None


LEVEL_TEXT = ("Exploration: hundreds (quick) / thousands (thorough) of generated modules x 3 styles and package trees are "
              "collected by the real static analysis; the set of (identifier, marked blocks) is compared with the "
              "generator's manifest, which also lists every marked block that must not be collected and why.")
LEVEL_NOTE = ("Trusted: the generator's manifest as the independent inventory (it is derived from what was written, not from "
              "analysing the result), unique markers to identify blocks.")
TECHNIQUE = "runtime monitor: collection observed at parse_doctestables / parse_static_calldefs / CLI list vs generator manifest with unique block markers"

"""
C08 - Reported line numbers point at the real lines of the source file.

Model-free oracle: every generated doctest starts with `>>> MARK<uid> = 1` and its failing statement
(or the first line of its offending want) contains `FAIL<uid>`; the file is read back and the reported
lines must contain those markers.  No offset arithmetic is modelled.
"""
import io
import os
import re
import random
import warnings
import contextlib

PROPERTY = 'C08'
LEVEL = 'exploration'
RULE = ("module layouts: leading blank lines and comments, a module docstring, decorators (one or two), class / method / "
        "property nesting, docstring opened on its own line or sharing it with prose, prefixes '', r, R, u, U, ''' and "
        "\"\"\", google blocks at any depth (1..3 per docstring) or freeform groups separated by prose, preceding multi-line "
        "statements, wants, short and long helper definitions; failing statement kind {raise, raise inside a bracketed "
        "multi-line statement, inside a compound statement, in a helper called from the doctest line, got/want on print, on "
        "an evaluated expression, on a multi-line statement, on the second of two wants, inside try/finally, try/except with a "
        "non-matching handler, nested try, a multi-line comprehension, a with block whose __exit__ runs, a while/else, a lambda "
        "called from the doctest line, none} at first / middle / last "
        "position.  Non-trivial = the docstring does not start on the line after the def and the doctest fails; distinct by "
        "source hash")
ASSUMPTIONS = [
    "no line-feed escapes or backslash line continuations stand IN FRONT of a doctest inside its docstring (lines are "
    "counted in the evaluated text from the docstring's start; behind the last doctest they are generated)",
    "for a failure inside a helper called from the doctest the reported line is the calling doctest line (outermost "
    "doctest frame)",
]
NSHARDS = {'quick': 16, 'thorough': 16}
RULE += (' Also: google blocks that open with prose / an empty line (finding F51), escapes and line continuations behind the last doctest of non-raw docstrings, run-time exceptions that carry a lineno of their own, a raising __repr__ with and without printed output; probe copied-docstrings (three callables with the same docstring text, two collection rounds).')
FAIL_KINDS = ['raise', 'multi_raise', 'compound_raise', 'called', 'called_long', 'gotwant', 'gotwant_eval',
              'gotwant_multi', 'gotwant_second', 'none', 'try_finally', 'try_except_other', 'comprehension',
              'with_raise', 'nested_try', 'lambda_call', 'while_else', 'compile_return', 'compile_nonlocal', 'bad_repr', 'bad_repr_multi', 'bad_repr_output',
              'runtime_syntax', 'runtime_lineno_attr']
PREFIXES = ['', '', 'r', 'R', 'u', 'U']


def required_cells(tier):
    return (['fail:' + k for k in FAIL_KINDS] + ['prefix:' + (p or 'none') for p in set(PREFIXES)] +
            ['style:google', 'style:freeform', 'open:same-line', 'open:own-line', 'where:func', 'where:method',
             'where:class', 'where:module', 'where:deco', 'start-line-checks', 'part-offset-checks',
             'blank-lines-before-first-block', 'ignored-block-before-doctest',
             'opening-line-differs-from-evaluated-text', 'open:on-the-def-line',
             'traceback-entries-of-inner-frames', 'file-encoding:latin-1',
             'identifier-normalised-by-the-compiler', 'google-block-opens-with-prose:start-line-under-the-header',
             'escapes-behind-the-last-doctest', 'copied-docstrings:freeform', 'copied-docstrings:google'])


def gen_doctest(rng, uid, fail_kind):
    L = []
    first = 'MARK%s' % uid
    L.append('>>> %s = 1' % first)
    pre = rng.randint(0, 3)
    for j in range(pre):
        k = rng.choice(['multi', 'want', 'def', 'plain', 'longdef', 'comment'])
        if k == 'multi':
            L += ['>>> a%d = [1,' % j, '...     2,', '...     3]']
        elif k == 'want':
            L += ['>>> print("w%d")' % j, 'w%d' % j]
        elif k == 'def':
            L += ['>>> def h%d():' % j, '...     return %d' % j]
        elif k == 'longdef':
            L += ['>>> def h%d():' % j, '...     a = 1', '...     b = 2', '...     c = 3', '...     return %d' % j]
        elif k == 'comment':
            L += ['>>> # a comment %d' % j]
        else:
            L += ['>>> b%d = %d' % (j, j)]
        if rng.random() < 0.2:
            L += ['', 'prose %d' % j, '']
    fm = 'FAIL%s' % uid
    if fail_kind == 'raise':
        L += ['>>> raise ValueError("%s")' % fm]
    elif fail_kind == 'multi_raise':
        L += ['>>> zz = [1,', '...     int("%s"),' % fm, '...     3]']
    elif fail_kind == 'compound_raise':
        L += ['>>> for q in range(2):', '...     qq = q', '...     raise KeyError("%s")' % fm]
    elif fail_kind == 'called':
        L += ['>>> def bad():', '...     x = 1', '...     raise RuntimeError("inner")  # INNER%s' % uid, '>>> y = 2',
              '>>> bad()  # %s' % fm]
    elif fail_kind == 'called_long':
        L += ['>>> def bad():', '...     x = 1', '...     y = 2', '...     z = 3', '...     w = 4',
              '...     raise RuntimeError("inner")', '', 'prose splits the parts', '', '>>> bad()  # %s' % fm]
    elif fail_kind == 'try_finally':
        # the frame keeps executing (the finally body) after the raise: the failing line is still the raise
        L += ['>>> try:', '...     x = 1', '...     raise ValueError("%s")' % fm, '... finally:', '...     y = None',
              '...     z = None']
    elif fail_kind == 'try_except_other':
        L += ['>>> try:', '...     raise ZeroDivisionError("%s")' % fm, '... except KeyError:', '...     pass']
    elif fail_kind == 'comprehension':
        L += ['>>> zz = [', '...     int(v)  # %s' % fm, '...     for v in ["1", "x"]', '... ]']
    elif fail_kind == 'with_raise':
        L += ['>>> import contextlib', '>>> with contextlib.suppress(KeyError):', '...     a = 1',
              '...     raise ValueError("%s")' % fm]
    elif fail_kind == 'nested_try':
        L += ['>>> try:', '...     try:', '...         raise ValueError("%s")' % fm, '...     finally:', '...         q = 1',
              '... finally:', '...     r = 2']
    elif fail_kind == 'lambda_call':
        L += ['>>> fz = lambda: 1 / 0  # INNER%s' % uid, '>>> w = 3', '>>> fz()  # %s' % fm]
    elif fail_kind == 'while_else':
        L += ['>>> n = 2', '>>> while n:', '...     n -= 1', '... else:', '...     raise KeyError("%s")' % fm]
    elif fail_kind == 'bad_repr':
        # the value of the evaluated expression cannot be rendered: the failing line is the statement, not its want
        L += ['>>> class BR:', '...     def __repr__(self):', '...         raise RuntimeError("norepr")',
              '>>> BR()  # %s' % fm, 'something', 'second want line']
    elif fail_kind == 'bad_repr_multi':
        L += ['>>> class BR:', '...     def __repr__(self):', '...         raise RuntimeError("norepr")', '>>> br0 = 1',
              '>>> br1 = 2', '>>> BR()  # %s' % fm, 'something']
    elif fail_kind == 'bad_repr_output':
        # ... and the statement printed text that is not the want either (finding F46)
        L += ['>>> class BR:', '...     def __repr__(self):', '...         raise RuntimeError("norepr")', '>>> br0 = 1',
              '>>> br1 = 2', '>>> (print("printed"), BR())[1]  # %s' % fm, 'something']
    elif fail_kind == 'runtime_syntax':
        # an exception raised at run time that carries a line number of its own (a SyntaxError of compile(): line 1 of
        # the text given to it): it says nothing about the doctest's lines
        L += ['>>> rs0 = 1', '>>> rs1 = 2', '>>> compile("x = = 1", "<s>", "exec")  # %s' % fm]
    elif fail_kind == 'runtime_lineno_attr':
        L += ['>>> import json', '>>> rl0 = 1', '>>> json.loads("[1," + chr(10) * 7 + " oops]")  # %s' % fm]
    elif fail_kind == 'compile_return':
        # rejected only when the part is compiled: the failing line is the line the SyntaxError names
        L += ['>>> pre_ok = 1', '>>> return 5  # %s' % fm]
    elif fail_kind == 'compile_nonlocal':
        L += ['>>> def nl():', '...     xx = 1', '...     nonlocal xx  # %s' % fm]
    elif fail_kind == 'gotwant':
        L += ['>>> print("good")', '%s bad' % fm, 'second want line']
    elif fail_kind == 'gotwant_eval':
        L += ['>>> yy = 5', '>>> 3 + 4', '%s' % fm]
    elif fail_kind == 'gotwant_multi':
        L += ['>>> print("good",', '...       "x")', '%s bad' % fm]
    elif fail_kind == 'gotwant_second':
        L += ['>>> print("ok1")', 'ok1', '>>> print("ok2")', '%s' % fm]
    elif fail_kind == 'none':
        fm = None
    for j in range(rng.randint(0, 2)):
        L += ['>>> c%d = %d' % (j, j)]
    return L, first, fm


def gen_module(rng, seed):
    out = []
    expect = []     # (callname, num, first marker, fail marker, kind)
    uid = [0]
    feats = set()

    def docstring(indent, style, want_prefix=None):
        q = rng.choice(['"""', "'''"])
        pref = rng.choice(PREFIXES) if want_prefix is None else want_prefix
        infos = []
        body = []
        nblocks = rng.randint(1, 3)
        if rng.random() < 0.5:
            body += ['Summary text.', '']
            if rng.random() < 0.2:
                body += ['']                # two blank lines under the summary
        elif rng.random() < 0.5:
            # blank lines between the opening quotes and the first block / prompt, no summary
            body += [''] * rng.randint(1, 3)
            feats.add('blank-lines-before-first-block')
        for b in range(nblocks):
            uid[0] += 1
            kind = rng.choice(FAIL_KINDS)
            L, first, fm = gen_doctest(rng, '%dx%d' % (seed, uid[0]), kind)
            if style == 'google':
                if rng.random() < 0.3:
                    body += ['Args:', '    a (int): thing', ''] + [''] * rng.choice([0, 0, 1, 2])
                lead = []
                if rng.random() < 0.25:
                    # the block opens with prose (and an empty line) in front of its first prompt
                    lead = rng.choice([['    Typical use:', ''], ['    Some prose first,', '    two lines of it.', ''], ['']])
                    feats.add('google-block-opens-with-prose')
                body += [rng.choice(['Example:', 'Doctest:', 'Examples:'])] + lead + ['    ' + ln if ln else ln for ln in L] + ['']
            else:
                if rng.random() < 0.3:
                    # freeform parsing ignores the doctest under one of these labels; its lines (wants included)
                    # still count for the position of what follows
                    body += [rng.choice(['Ignore:', 'Script:', 'DisableDoctest:', 'Benchmark:', 'SkipDoctest:']),
                             '    >>> ignored_%d = 1' % b, '    >>> print("ignored %d")' % b, '    ignored %d' % b] + \
                            ['    second want line'] * rng.randint(0, 2) + ['', 'Prose after the ignored block.', '']
                    feats.add('ignored-block-before-doctest')
                body += L + ['']
                if b < nblocks - 1:
                    body += ['Prose between.', '']
            infos.append((first, fm, kind))
        if pref in ('', 'u', 'U') and rng.random() < 0.3:
            # escapes and line continuations in the prose BEHIND the last doctest of a non-raw docstring: the evaluated
            # text no longer has one line per source line, the positions of what stands before it are not touched
            body += rng.choice([['Closing prose that ends in an escape.\\n', ''],
                                ['A closing prose line that is continued \\', 'on the next source line.', ''],
                                ['Tab\\tand form feed\\x0c escapes, then \\', 'a continuation.\\n\\n', '']])
            feats.add('escapes-behind-the-last-doctest')
        open_same = rng.random() < 0.4 and body[0] == 'Summary text.'
        ind = ' ' * indent
        lines = []
        if open_same:
            # the text on the opening line may be spelled differently from what it evaluates to (escape sequences in
            # a non-raw docstring) and may end in blanks
            summary = rng.choice([body[0], body[0], "Split *path* on '\\\\' separators.", 'Caf\\u00e9 summary.',
                                  "It\\'s the summary.", body[0] + '   '])
            if summary != body[0]:
                feats.add('opening-line-differs-from-evaluated-text')
            lines.append(ind + pref + q + summary)
            lines += [ind + ln if ln else ln for ln in body[1:]]
        else:
            trail = '   ' if rng.random() < 0.15 else ''
            if trail:
                feats.add('opening-line-differs-from-evaluated-text')
            lines.append(ind + pref + q + trail)
            lines += [ind + ln if ln else ln for ln in body]
        lines.append(ind + q + rng.choice(['', '', '  # trailing comment']))
        feats.add('prefix:' + (pref or 'none'))
        feats.add('open:same-line' if open_same else 'open:own-line')
        return lines, infos

    style = rng.choice(['google', 'freeform'])
    feats.add('style:' + style)

    def record(name, infos):
        if style == 'freeform':
            fm = fk = None
            for (f, m, kd) in infos:
                if m is not None:
                    fm, fk = m, kd
                    break
            expect.append((name, 0, infos[0][0], fm, fk or 'none'))
        else:
            for num, (f, m, kd) in enumerate(infos):
                expect.append((name, num, f, m, kd))

    head = []
    if rng.random() < 0.3:
        for _ in range(rng.randint(0, 2)):
            head.append(rng.choice(['', '# leading comment']))
        dl, infos = docstring(0, style)
        head += dl
        record('__doc__', infos)
        feats.add('where:module')
    n = rng.randint(1, 4)
    for k in range(n):
        for _ in range(rng.randint(0, 2)):
            out.append('')
        if rng.random() < 0.2:
            # characters str.splitlines() takes for line ends but the compiler does not (form feed as GNU style page
            # break, separators inside comments and string literals), and a bare carriage return, which the compiler
            # does count as a line end
            pick = rng.choice(['ff', 'ff_comment', 'fs_string', 'nel_string', 'vt_string', 'cr'])
            out.append({'ff': '\x0c', 'ff_comment': '# section\x0c break', 'fs_string': '_s%d = "a\x1cb\x1dc\x1e"' % k,
                        'nel_string': '_u%d = "x\u2028y\x85z"' % k, 'vt_string': '_v%d = "tab\x0bvt"' % k,
                        'cr': '_c%d = 1\r_e%d = 2' % (k, k)}[pick])
            feats.add('line-separator-character:' + pick)
        kind = rng.choice(['func', 'deco', 'class', 'method', 'deco2', 'nestedmethod'])
        if kind in ('func', 'deco', 'deco2'):
            if kind == 'deco':
                out.append('@_d')
                feats.add('where:deco')
            if kind == 'deco2':
                out += ['@_d', '@_d2(', '    1,', ')']
                feats.add('where:deco')
            defline = rng.choice(['def fn%d(a=1):', 'def fn%d(a=1,\n        b=2):', 'async def fn%d(a=1):']) % k
            fname = 'fn%d' % k
            if kind in ('deco', 'deco2') and rng.random() < 0.2:
                # an identifier the compiler normalises (micro sign -> greek mu): the name in the ast is not the text
                # on the def line (finding F42)
                defline = defline.replace('fn%d' % k, '\xb5fn%d' % k)
                fname = '\u03bcfn%d' % k
                feats.add('identifier-normalised-by-the-compiler')
            dl, infos = docstring(4, style)
            if rng.random() < 0.12:
                # the docstring is opened on the line of its def and is the whole body (finding F28)
                out += [defline + ' ' + dl[0].lstrip()] + dl[1:]
                feats.add('open:on-the-def-line')
            else:
                out.append(defline)
                out += dl + ['    return a']
            name = fname
            feats.add('where:func')
        elif kind == 'class':
            out.append('class K%d:' % k)
            dl, infos = docstring(4, style)
            out += dl + ['    x = 1']
            name = 'K%d' % k
            feats.add('where:class')
        else:
            out.append('class M%d:' % k)
            if rng.random() < 0.5:
                out += ['    y = 2', '']
            if rng.random() < 0.5:
                out += ['    @property']
            out.append('    def meth(self):')
            dl, infos = docstring(8, style)
            out += dl + ['        return 1']
            name = 'M%d.meth' % k
            feats.add('where:method')
        record(name, infos)
    src = '\n'.join(head) + ('\n' if head else '') + 'def _d(f):\n    return f\ndef _d2(*a):\n    return _d\n' + '\n'.join(out) + '\n'
    return src, expect, style, feats


def check_module(ctx, idx, seed):
    from xdoctest import core
    rng = random.Random(seed)
    src, expect, style, feats = gen_module(rng, idx)
    compile(src, '<gen>', 'exec')
    path = os.path.join(ctx.tmp, 'lmod_%d_%d_zz.py' % (ctx.shard, idx))
    # line ends of the file as a whole: LF, CRLF (the docstrings then hold CRLF too)
    eol = rng.choice(['\n', '\n', '\n', '\r\n'])
    if eol != '\n':
        src = src.replace('\n', eol)
        feats.add('file-line-ends:crlf')
    enc = 'utf8'
    if rng.random() < 0.12 and all(ord(c) < 256 for c in src) and '\xb5' not in src:
        # a source file in another encoding, declared by a cookie (finding F33)
        src = '# -*- coding: latin-1 -*-' + eol + src + '_caf = "caf\xe9"' + eol
        enc = 'latin-1'
        feats.add('file-encoding:latin-1')
    with open(path, 'w', newline='', encoding=enc) as f:
        f.write(src)
    flines = re.split('\r\n|\r|\n', src)      # the lines as the compiler counts them
    case = {'index': idx, 'case_seed': seed}

    def bad(mech, msg, **kw):
        ctx.violation(mech, msg + '\n--- module (style=%s) ---\n%s' % (style, '\n'.join(
            '%3d %s' % (i + 1, ln) for i, ln in enumerate(flines))), case, **kw)

    try:
        ctx.evaluation()
        try:
            with warnings.catch_warnings(record=True), contextlib.redirect_stdout(io.StringIO()):
                warnings.simplefilter('always')
                exs = list(core.parse_doctestables(path, style=style, analysis='static'))
        except Exception as ex:
            bad('collect-raised', 'parse_doctestables raised %r' % (ex,))
            return
        got = {(e.callname, e.num): e for e in exs}
        ok_all = True
        for (cn, num, first, fm, kind) in expect:
            e = got.get((cn, num))
            if e is None:
                bad('missing', 'doctest %s:%d was not collected' % (cn, num))
                ok_all = False
                break
            ctx.event('doctests_observed')
            ln = e.lineno
            if not (1 <= ln <= len(flines)) or first not in flines[ln - 1]:
                first_ln = 1 + next(i for i, x in enumerate(flines) if first in x)
                # finding F51 by mechanism: the reported line is the one under a google block header and nothing but
                # prose / empty lines lies between it and the first prompt
                under_header = (style == 'google' and 2 <= ln < first_ln and
                                flines[ln - 2].strip() in ('Example:', 'Doctest:', 'Examples:') and
                                not any('>>>' in x for x in flines[ln - 1:first_ln - 1]))
                bad('start-line', 'doctest %s:%d is reported to start at line %r (%r) but its first prompt (%s) is on line %d' % (
                    cn, num, ln, flines[ln - 1] if 1 <= ln <= len(flines) else None, first, first_ln), kind=kind,
                    block_opens_with_prose=under_header)
                if not under_header:
                    ok_all = False
                    break
                ctx.cell('google-block-opens-with-prose:start-line-under-the-header')
            else:
                ctx.cell('start-line-checks')
            e._parse()
            part_ok = True
            for p in e._parts:
                k = e.lineno - 1 + p.line_offset
                fl = flines[k] if 0 <= k < len(flines) else None
                if fl is None or p.orig_lines[0].strip() not in fl or not fl.strip().startswith('>>>'):
                    bad('part-offset', 'part with first line %r has line_offset %d -> file line %d holds %r' % (
                        p.orig_lines[0], p.line_offset, k + 1, fl))
                    part_ok = False
                    break
                ctx.cell('part-offset-checks')
            if not part_ok:
                ok_all = False
                break
            e.mode = 'native'
            try:
                with contextlib.redirect_stdout(io.StringIO()):
                    s = e.run(on_error='return', verbose=0)
            except BaseException as ex:
                bad('run-raised', 'run(on_error="return") raised %r' % (ex,))
                ok_all = False
                break
            ctx.event('doctest_runs')
            if fm is None:
                if not s['passed']:
                    bad('should-pass', '%s:%d should pass: %r' % (cn, num, s['exc_info'][1] if s['exc_info'] else s))
                    ok_all = False
                    break
                ctx.cell('fail:none')
            else:
                if not s['failed']:
                    bad('should-fail', '%s:%d (%s) should fail but reports %s' % (cn, num, kind, s))
                    ok_all = False
                    break
                fl = e.failed_lineno()
                if fl is None or not (1 <= fl <= len(flines)) or fm not in flines[fl - 1]:
                    real = 1 + next(i for i, x in enumerate(flines) if fm in x)
                    bad('fail-line', 'failure (%s) in %s:%d is reported at line %r (%r) but the failing line (%s) is line %d' % (
                        kind, cn, num, fl, flines[fl - 1] if fl and 1 <= fl <= len(flines) else None, fm, real),
                        kind=kind, reported=fl, real=real)
                    ok_all = False
                    break
                ctx.cell('fail:' + kind)
                if s['failed'] and e.lineno > 2:
                    ctx.nontrivial(src)
                if kind in ('called', 'lambda_call'):
                    # the report's traceback: every entry of a frame in the doctest's own code carries 'rel' and 'abs'
                    # line numbers; for the inner frame (helper defined and called in the same part) 'abs' must be the
                    # file line of the statement that raised, for the outer one the calling line
                    e.config['colored'] = False
                    try:
                        rep = '\n'.join(e.repr_failure())
                    except Exception as ex:
                        bad('report-raised', 'repr_failure() raised %r' % (ex,))
                        ok_all = False
                        break
                    entries = re.findall(r'line rel: (\d+), abs: (\d+), in (\S+)', rep)
                    inner = [(int(r), int(a), n) for r, a, n in entries if n in ('bad', '<lambda>')]
                    outer = [(int(r), int(a), n) for r, a, n in entries if n == '<module>']
                    inner_mark = 'INNER' + fm[4:]
                    okf = bool(inner) and bool(outer)
                    for r, a, n in inner:
                        okf = okf and 1 <= a <= len(flines) and inner_mark in flines[a - 1]
                    for r, a, n in outer:
                        okf = okf and 1 <= a <= len(flines) and fm in flines[a - 1]
                    if not okf:
                        bad('traceback-entry', 'the traceback of the report places its doctest frames at %r; the inner frame is on '
                            'line %d (%s), the calling statement on line %d\n--- report ---\n%s' % (
                                entries, 1 + next(i for i, x in enumerate(flines) if inner_mark in x), inner_mark,
                                1 + next(i for i, x in enumerate(flines) if fm in x), rep), kind=kind)
                        ok_all = False
                        break
                    ctx.cell('traceback-entries-of-inner-frames')
        if ok_all:
            for f in feats:
                ctx.cell(f)
            if ctx.shard == 0:
                ctx.sample({'module_source': src[:1500], 'style': style,
                            'expected_markers': [[cn, num, first, fm, kind] for cn, num, first, fm, kind in expect]}, limit=1)
    finally:
        os.unlink(path)


COPIED_DOCSTRING = [
    'Summary of a function whose documentation was copied.',
    '',
    '>>> setup = [1,',
    '...          2]',
    '>>> print(len(setup))',
    '2',
    '>>> total = [setup[0],',
    '...          setup[1],',
    '...          1 / 0]',
    '>>> never = 1',
]


def probe_copied_docstrings(ctx):
    """several callables of one module carry the very same docstring text (copy and paste, overloads): every one of their
    doctests reports its own lines: the start line, every part offset, and the line that raised inside a multi-line
    statement"""
    from xdoctest import core
    for layout in ('freeform', 'google'):
        names = ['copy_a', 'copy_b', 'copy_c']
        src = ['import os', '']
        where = {}
        for n in names:
            src += ['def %s():' % n, '    """']
            body = COPIED_DOCSTRING if layout == 'freeform' else (
                COPIED_DOCSTRING[:2] + ['Example:'] + ['    ' + ln for ln in COPIED_DOCSTRING[2:]])
            base = len(src)
            for k, ln in enumerate(body):
                src.append(('    ' + ln) if ln else '')
                if ln.strip() == '>>> setup = [1,':
                    where[n, 'start'] = base + k + 1
                if ln.strip() == '...          1 / 0]':
                    where[n, 'fail'] = base + k + 1
            src += ['    """', '    return 1', '', '']
        path = os.path.join(ctx.tmp, 'cp_%d_%s_%d_zz.py' % (ctx.seed, layout, ctx.shard))
        with open(path, 'w') as f:
            f.write('\n'.join(src) + '\n')
        flines = src
        case = {'probe': 'copied-docstrings', 'layout': layout}
        try:
            for style in (layout, 'auto'):
                for rounds in (1, 2):
                    ctx.evaluation()
                    with warnings.catch_warnings():
                        warnings.simplefilter('ignore')
                        exs = list(core.parse_doctestables(path, style=style, analysis='static'))
                    got = {e.callname: e for e in exs}
                    ok = True
                    for n in names:
                        e = got.get(n)
                        if e is None:
                            ctx.violation('missing', 'doctest %s:0 of a module with copied docstrings was not collected' % n, case)
                            ok = False
                            break
                        import io
                        import contextlib
                        with contextlib.redirect_stdout(io.StringIO()):
                            summ = e.run(on_error='return', verbose=0)
                        ctx.event('doctests_observed')
                        rep_start = e.lineno
                        rep_fail = e.failed_lineno() if summ['failed'] else None
                        offs = [e.lineno + p.line_offset for p in e._parts]
                        exp_offs_ok = all(1 <= o <= len(flines) and flines[o - 1].lstrip().startswith('>>>') for o in offs)
                        if rep_start != where[n, 'start'] or rep_fail != where[n, 'fail'] or not exp_offs_ok:
                            ctx.violation('fail-line' if rep_start == where[n, 'start'] and exp_offs_ok else 'start-line',
                                          'module whose callables carry the same docstring text (style=%s, collection round %d): '
                                          'doctest %s:0 reports start line %r, part lines %r and failing line %r; its first prompt is on '
                                          'line %d and the statement that raises on line %d\n--- module ---\n%s' % (
                                              style, rounds, n, rep_start, offs, rep_fail, where[n, 'start'], where[n, 'fail'],
                                              '\n'.join('%3d %s' % (i + 1, ln) for i, ln in enumerate(flines))), case)
                            ok = False
                            break
                    if ok:
                        ctx.cell('copied-docstrings:' + layout)
                        ctx.nontrivial((layout, style, rounds))
        finally:
            try:
                os.unlink(path)
            except OSError:
                pass


def run_shard(ctx):
    warnings.simplefilter('ignore')
    n = ctx.pick(1200, 20000)
    for idx in ctx.my_indices(n):
        check_module(ctx, idx, ctx.case_seed(idx))
    if ctx.shard == 3 % ctx.nshards:
        probe_copied_docstrings(ctx)


def replay(case, ctx):
    warnings.simplefilter('ignore')
    if case.get('probe') == 'copied-docstrings':
        probe_copied_docstrings(ctx)
        return
    check_module(ctx, case['index'], case['case_seed'])


def classify(v):
    if v.get('mechanism') == 'start-line' and v.get('block_opens_with_prose'):
        return 'google-block-start-line-under-header'
    return None


LEVEL_TEXT = ("Exploration: generated module files with uniquely marked first-prompt and failing lines are collected and run; "
              "the reported start line, every part offset and the reported failing line are looked up in the file text and "
              "must hold the marker.  All failure kinds, docstring prefixes, opening styles and nesting places must be "
              "observed.")
LEVEL_NOTE = ("Trusted: nothing but string search for unique markers in the file; the generator only has to place the markers "
              "on the right lines, which is by construction.")
TECHNIQUE = "runtime monitor: reported line numbers checked against unique markers read back from the file (model-free), over generated module layouts x failure kinds"

"""
C02 - Got/want verdicts are exact: no false pass, no false fail.

Workload: statements with by-construction outputs and values; wants in the three documented
forms (A: everything printed since the previous want, B: the final expression statement's own
output, C: repr of its value) placed after random statements; optionally exactly ONE want is
corrupted (replaced / line appended / line prepended / last line dropped).  The statements after
the corrupted want are still laid out.
Monitors: event log T (which statements ran), compile audit events (nothing compiled after the
failing part), run summary, failed_part.
Oracle: reference execution of the plain program with REPL values.
"""
import random

from xv import gen_programs as gp
from xv import harness

PROPERTY = 'C02'
LEVEL = 'exploration'
RULE = ("doctests of 1..8 statements from {emit (prints), an expression printing two lines, val (returns an object with repr R<id>, str S<id>), pv (prints and "
        "returns), assignment of a value, printing for loop, multi-line call, multi-line value expression, ';' line, "
        "';' line ending in a value, silent call, top-level await expressions and an asynchronous comprehension with a value, output left without a trailing newline, expressions whose output is only an empty / blank line (want <BLANKLINE>), "
        "alone, after other output, or together with a returned value}; after a statement a want is placed with p=0.55 in one of the forms "
        "A/B/C that applies; statements without wants are split into several parts by prose/blank lines so the "
        "accumulation buffer holds 1..4 entries; in half of the cases exactly one want is corrupted (replace, append, "
        "prepend, drop-last, stale = the output already consumed by the previous want prepended; stalevalue = the repr of an earlier expression's value under a statement without a value; noellipsis = the tail of the correct text replaced by '...' while an inline -ELLIPSIS switches the wildcard off; the previous want may be one "
        "switched off by an inline +IGNORE_WANT) and the remaining statements follow it.  Plus doctests in which nothing can run (comment "
        "only, all under +SKIP, google block without prompts).  Non-trivial = at least one want placed; distinct by "
        "docstring hash")
ASSUMPTIONS = [
    "the REPL concatenation 'printed text + repr(value)' is not one of C02's want forms and is not generated (finding F6, C20)",
    "a multi-line value expression or a ';' line ending in a value is compiled in 'single' mode when a want follows, which "
    "echoes the value to stdout: for these only form C (the repr) is generated",
    "wants whose first line starts with '...' or '>>>' are not generated; prose always follows a blank line",
    "corrupted wants use unique BOGUS<id> lines, so they cannot equal a trailing portion of the true output",
]
NSHARDS = {'quick': 16, 'thorough': 16}
RULE += (' Directed probes: an exception no want documents in seven placements (no want, ordinary want, IGNORE_WANT inline / block / default, after an ignored want); doctests in which nothing can run written with empty prompt lines; statements that print the characters of the blank-line marker; a value followed by a comment line written with the primary prompt (finding F55).')
FORMS = 'ABC'
CORRUPTIONS = ['replace', 'append', 'prepend', 'drop', 'stale', 'stale', 'noellipsis', 'noellipsis', 'stalevalue',
               'stalevalue']


def required_cells(tier):
    cells = []
    for f in FORMS:
        cells.append('ok:%s' % f)
        for c in CORRUPTIONS:
            if f == 'C' and c == 'drop':
                continue        # a repr is one line
            if f == 'B' and c == 'drop':
                continue        # rare (the final statement must print two lines): counted when it happens, not required
            if c == 'stale' and f != 'A':
                continue
            if c == 'noellipsis' and f == 'B':
                continue
            if c == 'stalevalue' and f != 'A':
                continue
            cells.append('corrupt:%s:%s' % (f, c))
    cells += ['corrupt:C:letter', 'corrupt:A:letter']
    cells += ['depth:1', 'depth:2', 'depth:3', 'nothing-ran:comment-only', 'nothing-ran:skip-block',
              'nothing-ran:google-no-prompts', 'nothing-ran:bare-prompt', 'no-want-at-all', 'blankline-want:A', 'blankline-want:B', 'ok:I', 'stale-after-ignored-want',
              'stale-from-before-the-ignored-statement', 'ok:want-repeats-printed-markerout',
              'ok:want-repeats-printed-markermid', 'value-then-comment-line-then-want']
    cells += ['escape:' + k for k, _ in ESCAPES]
    return cells


KINDS = ['emit', 'emit', 'twice', 'twice', 'val', 'pv', 'pv', 'assign', 'for', 'multi', 'valml', 'semi', 'semival', 'quiet',
         'blankout', 'wsout', 'emitblank', 'pvblank', 'aval', 'apv', 'acomp', 'coro_obj', 'noeol', 'noeol', 'assignprint', 'assignprint',
         'strval1', 'dictval1', 'bytesval', 'printq1', 'pvsemi_str', 'pvsemi_comment', 'valsemi_str', 'dotsout', 'dotsout',
         'markerout', 'markermid', 'valcomment_ps1', 'valcomment_ps1']


def out_to_want(text):
    """the want lines that spell `text` exactly: a line of blanks only is written <BLANKLINE>"""
    lines = text.split('\n')
    if lines and lines[-1] == '':
        lines.pop()
    return [ln if ln.strip() else '<BLANKLINE>' for ln in lines]


def gen_program(rng):
    n = rng.randint(1, 8)
    S = []
    for k in range(1, n + 1):
        kind = rng.choice(KINDS)
        St = gp.Stmt
        if kind == 'emit':
            S.append(St(['emit(%d)' % k], kind, k, is_expr=True))
        elif kind == 'twice':
            S.append(St(['(emit(%d), emit(%d)) and None' % (k, k)], kind, k, is_expr=True))
        elif kind == 'val':
            S.append(St(['val(%d)' % k], kind, k, is_expr=True))
        elif kind == 'pv':
            S.append(St(['pv(%d)' % k], kind, k, is_expr=True))
        elif kind == 'assign':
            S.append(St(['x%d = val(%d)' % (k, k)], kind, k))
        elif kind == 'for':
            S.append(St(['for _ in range(2):', '    emit(%d)' % k], kind, k))
        elif kind == 'multi':
            S.append(St(['emit(', '    %d)' % k], kind, k, is_expr=True))
        elif kind == 'valml':
            S.append(St(['val(', '    %d)' % k], kind, k, is_expr=True))
        elif kind == 'semi':
            S.append(St(['x%d = %d; emit(%d)' % (k, k, k)], kind, k, is_expr=True))
        elif kind == 'semival':
            S.append(St(['x%d = %d; val(%d)' % (k, k, k)], kind, k, is_expr=True))
        elif kind == 'quiet':
            S.append(St(['quiet(%d)' % k], kind, k, is_expr=True))
        elif kind == 'aval':
            # the value of a top-level await expression
            S.append(St(['await aval(%d)' % k], kind, k, is_expr=True))
        elif kind == 'apv':
            S.append(St(['await apv(%d)' % k], kind, k, is_expr=True))
        elif kind == 'acomp':
            S.append(St(['[x async for x in agen(%d)]' % k], kind, k, is_expr=True))
        elif kind == 'assignprint':
            # a statement that prints but has no value of its own
            S.append(St(['y%d = emit(%d)' % (k, k)], kind, k))
        elif kind == 'dotsout':
            # output that itself starts with three dots, the wildcard switched off for this statement: the dots are text
            S.append(St(['print("...d%d", end=quiet(%d) or "\\n")  # xdoctest: -ELLIPSIS' % (k, k)], kind, k, is_expr=True))
        elif kind == 'pvsemi_str':
            # a semicolon that separates nothing: inside a string literal / a comment of the final expression statement
            S.append(St(['(";", pv(%d))[1]' % k], kind, k, is_expr=True))
        elif kind == 'pvsemi_comment':
            S.append(St(['pv(%d)  # prints; and returns' % k], kind, k, is_expr=True))
        elif kind == 'valsemi_str':
            S.append(St(['("a;b", val(%d))[1]' % k], kind, k, is_expr=True))
        elif kind == 'strval1':
            # plain Python values whose repr holds a one letter string that looks like a bytes / unicode prefix
            S.append(St(['quiet(%d) or %r' % (k, rng.choice(['b', 'u', 'B', 'U']))], kind, k, is_expr=True))
        elif kind == 'dictval1':
            S.append(St(['quiet(%d) or {%r: %d}' % (k, rng.choice(['b', 'u']), k)], kind, k, is_expr=True))
        elif kind == 'bytesval':
            S.append(St(["quiet(%d) or [b'x%d', 'b']" % (k, k)], kind, k, is_expr=True))
        elif kind == 'printq1':
            S.append(St(['print(repr(%r), quiet(%d))' % (rng.choice(['b', 'u']), k)], kind, k, is_expr=True))
        elif kind == 'noeol':
            # output without a trailing newline: what the next statement prints continues the same line
            S.append(St(['print("n%d", end=quiet(%d) or "")' % (k, k)], kind, k, is_expr=True))
        elif kind == 'coro_obj':
            # the value is a coroutine object that nobody awaits: its body must not run
            S.append(St(['quiet(%d) or acoro(%d)' % (k, k)], kind, k, is_expr=True))
        elif kind == 'valcomment_ps1':
            # a comment line (written with the primary prompt) between the final expression and its want: not a statement
            S.append(St(['val(%d)' % k, '# about the value'], kind, k, is_expr=True))
        elif kind == 'markerout':
            # the program prints the very characters of the blank-line marker, as a line of its own / inside a line
            S.append(St(['print("<BLANKLINE>", end=quiet(%d) or "\\n")' % k], kind, k, is_expr=True))
        elif kind == 'markermid':
            S.append(St(['print("m%d <BLANKLINE> x", end=quiet(%d) or "\\n")' % (k, k)], kind, k, is_expr=True))
        elif kind == 'blankout':
            # an evaluated expression whose whole output is one empty line (value None)
            S.append(St(['print(end=quiet(%d) or "\\n")' % k], kind, k, is_expr=True))
        elif kind == 'wsout':
            S.append(St(['print("  ", end=quiet(%d) or "\\n")' % k], kind, k, is_expr=True))
        elif kind == 'emitblank':
            S.append(St(['(emit(%d), print()) and None' % k], kind, k, is_expr=True))
        elif kind == 'pvblank':
            # prints only a blank line and returns a value
            S.append(St(['(print(), val(%d))[1]' % k], kind, k, is_expr=True))
    return S


def value_repr(st, ref, idx):
    v = ref.values[idx]
    if st.kind == 'semival':
        return 'R%d' % st.sid
    if st.kind == 'coro_obj':
        try:
            v.close()
        except Exception:
            pass
        return '<coroutine object acoro at 0x...>'      # ELLIPSIS is on by default
    if v is gp.NOVALUE or v is None:
        return None
    return repr(v)


def marker_ambiguous(text):
    lines = text.split('\n')
    if lines and lines[-1] == '':
        lines = lines[:-1]
    return any(ln.strip() == '<BLANKLINE>' for ln in lines) and any(not ln.strip() for ln in lines)


def plan_wants(rng, S, ref, corrupt):
    """decide wants; returns (wants dict, info list, expect_fail or None, seps)"""
    wants = {}
    placed = []
    acc = ''
    depth = 1
    expect_fail = None
    corrupt_at = rng.randrange(len(S)) if corrupt else None
    seps = {}
    blank_wants = []
    last_value = None       # repr of the value of the most recent expression that was checked against a want
    stale = []              # want lines spelling the output that the previous want has already consumed
    prev_ignored = False    # the previous want was switched off by an inline +IGNORE_WANT
    before_ignored = []     # ... and this is what had been printed before the statement that carries it
    for idx, st in enumerate(S):
        out = ref.outs[idx]
        acc += out
        opts = []
        only_c = st.kind in ('valml', 'semival')
        if acc and not only_c:
            opts.append(('A', out_to_want(acc)))
        if st.is_expr and out and out != acc and not only_c:
            opts.append(('B', out_to_want(out)))
        r = value_repr(st, ref, idx)
        if st.is_expr and r is not None:
            opts.append(('C', [r]))
        opts = [(t, w) for t, w in opts if gp.want_is_layoutable(w)]
        if corrupt and st.kind == 'valcomment_ps1':
            # (finding F55 makes the correct repr want of such a statement fail: in the doctests that carry a corrupted want
            # it is left out, so that what is observed there is the corruption alone)
            opts = [(t, w) for t, w in opts if t != 'C']
        # a printed line that spells the marker next to a really empty line: the want syntax cannot tell them apart
        # (the standard module cannot either)
        if marker_ambiguous(acc):
            opts = [(t, w) for t, w in opts if t != 'A']
        if marker_ambiguous(out):
            opts = [(t, w) for t, w in opts if t != 'B']
        place = bool(opts) and (rng.random() < 0.55 or corrupt_at == idx)
        if place:
            tag, wl = rng.choice(opts)
            wl = list(wl)
            if any(w == '<BLANKLINE>' for w in wl):
                blank_wants.append(tag)
            if corrupt_at == idx:
                stale_before_ignored = False
                c = rng.choice(CORRUPTIONS)
                if prev_ignored and tag == 'A' and any(w != '<BLANKLINE>' for w in before_ignored) and rng.random() < 0.5:
                    c = 'stale'
                # dropping a final <BLANKLINE> changes nothing (trailing whitespace is not compared)
                # ... and a want left with <BLANKLINE> lines only is an empty want, which the empty output of a silent
                # final statement satisfies
                if c == 'drop' and (len(wl) < 2 or wl[-1] == '<BLANKLINE>' or
                                    not any(w != '<BLANKLINE>' for w in wl[:-1])):
                    c = 'replace'
                if c == 'stale' and not any(w != '<BLANKLINE>' for w in stale):
                    c = 'replace'
                if (not st.is_expr) and last_value is not None and rng.random() < 0.6:
                    c = 'stalevalue'
                if c == 'stalevalue' and (st.is_expr or last_value is None):
                    c = 'replace'
                if c == 'stalevalue':
                    # the repr of an EARLIER expression's value under a statement that has no value of its own
                    wl = [last_value]
                elif c == 'noellipsis' and not (len(st.lines) == 1 and len(wl) == 1 and len(wl[0]) >= 3 and
                                              '...' not in wl[0] and '#' not in st.lines[0]):
                    c = 'replace'
                swaps = {"'%s'" % a: "'%s'" % rng.choice([x for x in 'bBuU' if x != a]) for a in 'bBuU'}
                hit = [(li, q) for li, w in enumerate(wl) for q in sorted(swaps) if q in w]
                if hit and c != 'stalevalue' and rng.random() < 0.7:
                    # another one letter string where the text has one: a different value, whatever prefixes are dropped
                    c = 'letter'
                    li, q = hit[0]
                    wl[li] = wl[li].replace(q, swaps[q], 1)
                if c in ('stalevalue', 'letter'):
                    pass
                elif c == 'noellipsis':
                    # the correct text with its tail replaced by '...', and the wildcard switched off for this
                    # statement: the dots are literal, the want is wrong (whatever is compared with it: the output,
                    # the final statement's output or the repr of its value)
                    wl = [wl[0][:rng.randint(1, len(wl[0]) - 2)] + '...']
                    st.lines[0] += '  # xdoctest: -ELLIPSIS'
                elif c == 'stale':
                    # the output printed before the PREVIOUS want, then the correct text: that output is no longer
                    # "since the previous want", so this is not a trailing portion of what may be matched
                    if prev_ignored and any(w != '<BLANKLINE>' for w in before_ignored) and rng.random() < 0.7:
                        # (only what want-less statements printed BEFORE the statement whose want is ignored)
                        wl = before_ignored + wl
                        stale_before_ignored = True
                    else:
                        wl = stale + wl
                elif c == 'replace':
                    wl = ['BOGUS%d' % idx]
                elif c == 'append':
                    wl = wl + ['BOGUS%d' % idx]
                elif c == 'prepend':
                    wl = ['BOGUS%d' % idx] + wl
                elif c == 'drop':
                    wl = wl[:-1]
                if c != 'noellipsis' and any(wl == list(w) for _, w in opts):
                    # (what was built is by chance a correct want for this statement in one of its forms, e.g. the stale
                    # text is printed again by a want-less statement in between: not a corruption, take a plain one)
                    c = 'replace'
                    wl = ['BOGUS%d' % idx]
                    stale_before_ignored = False
                expect_fail = {'index': idx, 'want': '\n'.join(wl), 'form': tag, 'corruption': c,
                               'after_ignored_want': prev_ignored, 'stale_before_ignored': stale_before_ignored}
                wants[idx] = wl
                placed.append((idx, tag, depth))
                break
            prev_ignored = False
            before_ignored = []
            if len(st.lines) == 1 and '#' not in st.lines[0] and rng.random() < 0.15:
                before_ignored = out_to_want(acc[:len(acc) - len(out)]) if len(acc) > len(out) else []
                # the want is switched off for this statement only; it still is "the previous want" for the next one
                st.lines[0] += '  # xdoctest: +IGNORE_WANT'
                wl = ['IGNORED%d whatever' % idx]
                tag = 'I'
                prev_ignored = True
            wants[idx] = wl
            placed.append((idx, tag, depth if tag == 'A' else 1))
            if st.is_expr and value_repr(st, ref, idx) is not None and tag != 'I':
                last_value = value_repr(st, ref, idx)
            stale = out_to_want(acc)
            acc = ''
            depth = 1
        # separator after this statement (creates a new part -> deeper accumulation buffer)
        if idx < len(S) - 1:
            x = rng.random()
            if x < 0.2:
                seps[idx] = 'prose'
                depth += 0 if place else 1
            elif x < 0.35:
                seps[idx] = 'blank'
                depth += 0 if place else 1
    return wants, placed, expect_fail, seps, blank_wants


def render(rng, S, wants, seps, base_indent=0, google=False):
    lines = []
    for idx, st in enumerate(S):
        style = rng.choice(['all_ps1', 'ps2', 'ps2'])
        if st.kind == 'valcomment_ps1':
            style = 'all_ps1'
        for li, ln in enumerate(st.lines):
            pre = '>>> ' if (li == 0 or style == 'all_ps1') else '... '
            lines.append(pre + ln)
        if idx in wants:
            lines.extend(wants[idx])
        sp = seps.get(idx)
        if sp == 'prose':
            lines.extend(['', 'prose %d here.' % idx, ''])
        elif sp == 'blank':
            lines.append('')
    ind = ' ' * base_indent
    body = [ind + ln if ln else ln for ln in lines]
    if google:
        body = [ind + 'Summary.', '', ind + 'Example:'] + ['    ' + ln if ln else ln for ln in body]
    return '\n'.join(body)


def check_case(ctx, index, case_seed):
    rng = random.Random(case_seed)
    S = gen_program(rng)
    ref = gp.run_reference(S, repl_values=True)
    if ref.error is not None:
        raise AssertionError('generator produced a failing program %r' % (ref.error,))
    corrupt = rng.random() < 0.5
    wants, placed, expect_fail, seps, blank_wants = plan_wants(rng, S, ref, corrupt)
    google = rng.random() < 0.25
    doc = render(rng, S, wants, seps, base_indent=rng.choice([0, 4]), google=google)
    case = {'index': index, 'case_seed': case_seed, 'doc': doc, 'expect_fail': expect_fail,
            'wants': [[i, t, d] for i, t, d in placed]}
    ctx.evaluation()
    if placed:
        ctx.nontrivial(doc)

    def bad(mech, msg, **kw):
        ctx.violation(mech, msg + '\n--- docstring ---\n' + doc, case, **kw)

    try:
        exs, wl, printed = harness.collect(doc, style='google' if google else 'freeform')
    except Exception as ex:
        bad('collect-raised', 'parse_docstr_examples raised %r' % (ex,))
        return
    if len(exs) != 1:
        bad('not-collected-once', '%d doctests collected instead of 1: %s' % (
            len(exs), [str(w.message)[:300] for w in wl][:1]))
        return
    dt = exs[0]
    rec = harness.run_doctest(dt)
    ctx.event('doctest_runs')
    ctx.event('compile_events', len(rec.audit.compiled_sources()))
    if rec.raised is not None:
        bad('run-raised', 'run(on_error="return") raised %r' % (rec.raised,))
        return
    s = rec.summary
    if expect_fail is None:
        if not s['passed']:
            ei = s['exc_info']
            fp = getattr(dt, 'failed_part', None)
            # finding F55 by mechanism: the failing want is the repr of the value of an expression that is followed by a
            # comment line written with the primary prompt
            fw = getattr(fp, 'want', None)
            behind_comment = any(S[pi].kind == 'valcomment_ps1' and tag == 'C' and '\n'.join(wants[pi]) == fw
                                 for pi, tag, _ in placed)
            bad('false-fail', 'all wants are correct (forms %s) but the doctest reports %s: %r; failing want %r' % (
                [t for _, t, _ in placed], harness.outcome(s), ei[1] if ei else None,
                fw), forms=[t for _, t, _ in placed], value_then_comment_line=behind_comment)
            if behind_comment:
                ctx.cell('value-then-comment-line-then-want')
            return
        if rec.T != ref.T:
            bad('trace', 'passed, but the event log %r differs from the reference %r' % (rec.T, ref.T))
            return
        for pi, tag, depth in placed:
            if S[pi].kind in ('markerout', 'markermid') and tag in ('A', 'B'):
                ctx.cell('ok:want-repeats-printed-%s' % S[pi].kind)
        for _, tag, depth in placed:
            ctx.cell('ok:' + tag)
            if tag == 'A':
                ctx.cell('depth:%d' % min(depth, 4))
        if not placed:
            ctx.cell('no-want-at-all')
        for tag in blank_wants:
            ctx.cell('blankline-want:' + tag)
    else:
        k = expect_fail['index']
        tag = expect_fail['form']
        cor = expect_fail['corruption']
        from xdoctest import checker
        if not s['failed']:
            bad('false-pass', 'want #%d (form %s) was corrupted by %s to %r but the doctest reports %s' % (
                k, tag, cor, expect_fail['want'], harness.outcome(s)), form=tag, corruption=cor)
            return
        ev = s['exc_info'][1]
        if not isinstance(ev, checker.GotWantException):
            bad('wrong-exception', 'corrupted want must fail with a got/want error, got %r' % (ev,))
            return
        fp = dt.failed_part
        if getattr(fp, 'want', None) != expect_fail['want']:
            fw = getattr(fp, 'want', None)
            behind_comment = any(S[pi].kind == 'valcomment_ps1' and tg == 'C' and pi != k and '\n'.join(wants[pi]) == fw
                                 for pi, tg, _ in placed)
            bad('wrong-attribution', 'failure attributed to want %r instead of the corrupted want %r' % (
                fw, expect_fail['want']), value_then_comment_line=behind_comment)
            return
        exp_T = ref.T[:ref.traces[k]]
        if rec.T != exp_T:
            what = 'a statement after the failing want ran' if len(rec.T) > len(exp_T) else 'a statement before it did not run'
            bad('trace-at-failure', '%s: event log %r, expected the reference prefix %r' % (what, rec.T, exp_T),
                observed=rec.T, expected=exp_T)
            return
        # M-A: no compile event for lines of later statements
        later = set()
        for st in S[k + 1:]:
            later.update(harness.norm_code_lines(st.lines))
        compiled = harness.norm_code_lines([ln for src in rec.audit.compiled_sources() for ln in src.split('\n')])
        mine = harness.norm_code_lines(S[k].lines)
        last_src = harness.norm_code_lines(rec.audit.compiled_sources()[-1].split('\n')) if rec.audit.compiled_sources() else []
        if mine and mine[-1] not in last_src:
            bad('compile-after-failure', 'the last part handed to compile() %r is not the failing statement %r' % (
                last_src, mine))
            return
        ctx.event('compile_prefix_checks')
        ctx.cell('corrupt:%s:%s' % (tag, cor))
        if cor == 'stale' and expect_fail.get('after_ignored_want'):
            ctx.cell('stale-after-ignored-want')
            if expect_fail.get('stale_before_ignored'):
                ctx.cell('stale-from-before-the-ignored-statement')
        if tag == 'A':
            ctx.cell('depth:%d' % min(placed[-1][2], 4))
    if ctx.shard == 0:
        ctx.sample({'docstring': doc, 'expect_fail': expect_fail, 'observed_outcome': harness.outcome(s),
                    'observed_T': rec.T, 'reference_T': ref.T}, limit=3)


NOTHING = [
    ('comment-only', 'freeform', '>>> # just a comment\n>>> # another one'),
    ('comment-only', 'freeform', '    >>> # comment A\n\n    prose\n\n    >>> # comment B'),
    ('comment-only', 'google', 'Summary.\n\nExample:\n    >>> # nothing but this'),
    ('skip-block', 'freeform', '>>> # xdoctest: +SKIP\n>>> emit(1)\n>>> emit(2)\ne2'),
    ('skip-block', 'freeform', '>>> # xdoctest: +SKIP\n>>> emit(1)\ne1\n\ntext\n\n>>> emit(2)\nBOGUS'),
    ('skip-block', 'google', 'Summary.\n\nExample:\n    >>> # doctest: +SKIP\n    >>> emit(1)\n    BOGUS'),
    ('skip-block', 'freeform', '>>> # xdoctest: +REQUIRES(module:xv_no_such_module)\n>>> emit(1)\nBOGUS'),
    # empty prompt lines are not code either
    ('bare-prompt', 'freeform', '>>> # a remark\n>>>\n>>> emit(1)  # xdoctest: +SKIP\nBOGUS'),
    ('bare-prompt', 'freeform', '>>>\n>>> emit(1)  # xdoctest: +SKIP\n>>> emit(2)  # xdoctest: +SKIP'),
    ('bare-prompt', 'freeform', '>>> # xdoctest: +SKIP\n>>>\n>>> emit(1)\nBOGUS'),
    ('bare-prompt', 'google', 'Summary.\n\nExample:\n    >>> # remark\n    >>>\n    >>> # xdoctest: +REQUIRES(module:xv_no_such_module)\n    >>> emit(1)\n'),
    ('bare-prompt', 'freeform', '>>> # remark\n>>>\n...\n>>> emit(1)  # xdoctest: +SKIP'),
    ('google-no-prompts', 'google', 'Summary.\n\nExample:\n    only prose in this block\n'),
]


def check_nothing_ran(ctx):
    for kind, style, doc in NOTHING:
        ctx.evaluation()
        case = {'kind': 'nothing', 'doc': doc, 'style': style}
        exs, wl, printed = harness.collect(doc, style=style)
        if len(exs) != 1:
            ctx.violation('not-collected-once', '%d doctests for %r' % (len(exs), doc), case)
            continue
        rec = harness.run_doctest(exs[0])
        ctx.event('doctest_runs')
        if rec.raised is not None:
            ctx.violation('run-raised', 'run raised %r for %r' % (rec.raised, doc), case)
            continue
        s = rec.summary
        if s['passed'] or s['failed'] or not s['skipped'] or rec.T:
            ctx.violation('nothing-ran-not-skipped', 'a doctest in which nothing can run (%s) reports %s with event log %r'
                          '\n--- docstring ---\n%s' % (kind, harness.outcome(s), rec.T, doc), case)
            continue
        ctx.cell('nothing-ran:' + kind)
        ctx.nontrivial(doc)


ESCAPES = [
    # an exception that no want documents escapes: the doctest fails with it whatever is (or is not) compared
    ('no-want', '>>> quiet(1)\n>>> int("zz")\n>>> quiet(2)'),
    ('ordinary-want', '>>> quiet(1)\n>>> int("zz")\n12\n>>> quiet(2)'),
    ('ignore-want-inline', '>>> quiet(1)\n>>> int("zz")  # xdoctest: +IGNORE_WANT\n12\n>>> quiet(2)'),
    ('ignore-want-block', '>>> # xdoctest: +IGNORE_WANT\n>>> quiet(1)\n>>> print("a")\nb\n>>> int("zz")\n12\n>>> quiet(2)'),
    ('ignore-want-block-no-want', '>>> # xdoctest: +IGNORE_WANT\n>>> quiet(1)\n>>> int("zz")\n>>> quiet(2)'),
    ('ignore-want-default', '>>> quiet(1)\n>>> int("zz")\n12\n>>> quiet(2)'),
    ('after-ignored-want', '>>> quiet(1)\n>>> print("a")  # xdoctest: +IGNORE_WANT\nb\n>>> int("zz")\n12\n>>> quiet(2)'),
]


def check_exception_escapes(ctx):
    from xdoctest import doctest_example
    for kind, doc in ESCAPES:
        ctx.evaluation()
        case = {'kind': 'escape', 'doc': doc, 'escape': kind}
        dt = doctest_example.DocTest(doc)
        if kind == 'ignore-want-default':
            dt.config['default_runtime_state'] = {'IGNORE_WANT': True}
        rec = harness.run_doctest(dt)
        ctx.event('doctest_runs')
        if rec.raised is not None:
            ctx.violation('run-raised', 'run raised %r for %r' % (rec.raised, doc), case)
            continue
        s = rec.summary
        ev = s['exc_info'][1] if s['exc_info'] else None
        if not s['failed'] or not isinstance(ev, ValueError) or rec.T != [1]:
            ctx.violation('false-pass' if s['passed'] else 'wrong-exception',
                          'a statement raised ValueError that no want documents (%s): the doctest must fail with it and '
                          'event log [1]; observed %s (%r), event log %r\n--- docstring ---\n%s' % (
                              kind, harness.outcome(s), ev, rec.T, doc), case)
            continue
        ctx.cell('escape:' + kind)
        ctx.nontrivial(doc)


def run_shard(ctx):
    import warnings
    warnings.simplefilter('ignore')
    n = ctx.pick(6000, 120000)
    for idx in ctx.my_indices(n):
        check_case(ctx, idx, ctx.case_seed(idx))
    if ctx.shard == 0:
        check_nothing_ran(ctx)
    if ctx.shard == 1 % ctx.nshards:
        check_exception_escapes(ctx)


def replay(case, ctx):
    import warnings
    warnings.simplefilter('ignore')
    if case.get('kind') == 'nothing':
        check_nothing_ran(ctx)
    elif case.get('kind') == 'escape':
        check_exception_escapes(ctx)
    else:
        check_case(ctx, case['index'], case['case_seed'])


def classify(v):
    if v.get('mechanism') in ('false-fail', 'wrong-attribution') and v.get('value_then_comment_line'):
        return 'comment-line-between-value-and-want'
    return None


LEVEL_TEXT = ("Exploration: generated doctests with by-construction outputs and values run through the real parser, runner and "
              "checker; correct wants in every documented form must pass, each single corruption must fail with a got/want "
              "error at exactly that want, with the event log equal to the reference prefix (nothing after the want ran) and "
              "no later compile event.  Coverage cells (form x corruption, buffer depth) must all be observed.")
LEVEL_NOTE = ("Trusted: CPython eval/exec as reference, uniqueness of ids (a corrupted want cannot match by accident), the "
              "generator's reading of which want forms apply to which statement kind (listed under assumptions).")
TECHNIQUE = "runtime monitor: unique-id event log + compile audit events + run summary, oracle = reference execution with by-construction wants and single-want corruption"

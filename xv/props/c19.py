"""
C19 - The dump command emits valid Python holding every doctest statement in order.

Modules whose doctests come from the C01 program generator are converted with
runner.doctest_module(path, 'dump') (and for a sample with the CLI); stdout is parsed with ast.
Oracle: exactly one function per enabled doctest; its body, minus the docstring, the generated
'from <mod> import ...' line and the '# doctest want:' comment blocks, equals the doctest's
de-prompted lines in order without star-imports; the want comments equal the wants in order.
Then every converted test is executed against the imported module: the unique-id event log of the
statements it runs must equal the doctest's own (reference run), so a test that lost what it needs
to run (for instance a name in its import line) is seen even when its body lines are all there.
"""
import io
import os
import ast
import sys
import random
import warnings
import contextlib
import subprocess

from xv import gen_programs as gp

PROPERTY = 'C19'
LEVEL = 'exploration'
RULE = ("modules of 1..4 functions/methods whose doctests are C01 programs (multi-line statements, decorators, triple-quoted "
        "strings with unprefixed lines, wants of several lines, comments, directives, star-imports at top level and nested in a compound statement, top-level await) in a "
        "google Example block, some force-disabled, some with two blocks per docstring.  Non-trivial = the doctest has a "
        "compound or multi-line statement and a want; distinct by module source hash")
ASSUMPTIONS = [
    "lines inside a multi-line string are compared modulo leading blanks (the conversion re-indents the whole body and an "
    "unprefixed string line may have lost up to four leading blanks when parsed)",
    "star-import lines ('from x import *') are removed by the conversion as documented and are expected to be absent",
    "force-disabled doctests are not converted ('per enabled doctest')",
    "a converted test is executed as the function it is (a doctest's names become function locals); the generated "
    "programs do not depend on module-level scoping (no exec of strings; a doctest with a 'global' statement is counted "
    "apart: inside the test function the statement names another namespace); a test whose doctest "
    "uses top-level await cannot be executed (finding F16) and is counted apart; a statement that raises on purpose "
    "ends the converted test there, the statements before it are compared",
]
NSHARDS = {'quick': 16, 'thorough': 16}
RULE += (" Modules hold methods named like a module function behind a nested class; star imports at top level and nested; converted tests are executed and their event log compared with the doctest's.")


def required_cells(tier):
    return ['functions-match', 'body-lines-equal', 'want-comments-equal', 'star-import-removed',
            'star-import-nested-removed', 'dump-compiles', 'disabled-omitted',
            'two-blocks', 'multi-line-want', 'cli', 'converted-test-runs-the-same-statements',
            'converted-test-uses-private-module-names', 'kind:mentions_star_import', 'doctests-in-package-main', 'kind:mlstr', 'kind:deco', 'kind:await', 'kind:comment', 'kind:mlstr_trailing', 'kind:markercomment',
            'method-named-like-a-function-behind-a-nested-class']


AWAIT_ERRORS = ("'await' outside async function", "'async with' outside async function",
                "'async for' outside async function", 'asynchronous comprehension outside of an asynchronous function')


def gen_doctest(rng, uid):
    # the docstring literal is r"""...""": statement kinds that themselves contain """ cannot be embedded
    g = gp.ProgramGen(rng, kinds=[k for k in gp.ProgramGen.C01_KINDS if k != 'mlstr_prompt'])
    stmts = g.program(1, 6)
    star = False
    if rng.random() < 0.3:
        stmts.insert(0, gp.Stmt(['from os.path import *'], 'starimport', 0))
        star = True
    if rng.random() < 0.2:
        # a star import that is not at the start of its line: nested in a compound statement, next to a
        # sibling statement that keeps the block non-empty once the import is removed
        k = 9000 + rng.randrange(1000)
        stmts.insert(rng.randrange(len(stmts) + 1),
                     gp.Stmt(['if %d:' % k, '    from os.path import *  # NOQA', '    quiet(%d)' % k], 'starimport_nested', k))
        star = 'nested'
    if rng.random() < 0.15:
        # a statement that only mentions a star import, in a string: it is not one and must stay (finding F34)
        k = 8000 + rng.randrange(1000)
        stmts.insert(rng.randrange(len(stmts) + 1),
                     gp.Stmt(["m%d = 'from x import * is discouraged'; quiet(%d)" % (k, k)], 'mentions_star_import', k,
                             is_expr=True))
    ref = gp.run_reference(stmts)
    if ref.error is not None:
        raise AssertionError('generator produced a failing program %r' % (ref.error,))
    layout = gp.Layout(rng, base_indent=0, wrapper='freeform', want_prob=0.6, prose_prob=0.0,
                       blank_prob=rng.choice([0.0, 0.2]))
    doc, info = layout.render(stmts, ref.outs)
    info['ref_T'] = list(ref.T)
    return stmts, doc, info, star


def gen_module(rng, uid):
    funcs = []
    expect = []      # per enabled doctest: dict(stmts, wants, callname)
    # the module defines what the doctests use (event log T, emit / quiet ..., two private names), so that the
    # converted tests can be executed and the statements they run compared with the doctest's own
    src = ['import asyncio', '', 'T = []', gp.PRELUDE, '']
    n = rng.randint(1, 4)
    feats = set()
    is_method = [rng.random() < 0.3 for _ in range(n)]
    for k in range(n):
        nblocks = 2 if rng.random() < 0.2 else 1
        disabled = rng.random() < 0.15
        blocks = []
        for b in range(nblocks):
            stmts, doc, info, star = gen_doctest(rng, '%s_%d_%d' % (uid, k, b))
            if 'mixed-continuation-then-want' in info['features']:
                # known finding of C01 (the doctest is dropped by the parser): regenerate plainly
                stmts, doc, info, star = gen_doctest(random.Random(rng.random()), '%s_%d_%d' % (uid, k, b))
                if 'mixed-continuation-then-want' in info['features']:
                    stmts = [gp.Stmt(['emit(1)'], 'emit', 1, is_expr=True)]
                    doc, info, star = '>>> emit(1)\ne1', {'wants': {0: ['e1']}, 'features': [], 'ref_T': [1]}, False
            blocks.append((stmts, doc, info, star))
        method = is_method[k]
        if method:
            mname = 'meth'
            plain = [j for j in range(n) if not is_method[j]]
            src += ['class K%d:' % k]
            if plain and rng.random() < 0.6:
                # a method named like a function of the module, behind a nested class
                mname = 'func%d' % rng.choice(plain)
                src += ['    class Options:', '        verbose = False', '']
                feats.add('method-named-like-a-function-behind-a-nested-class')
            src += ['    def %s(self):' % mname]
            ind = '        '
            callname = 'K%d.%s' % (k, mname)
        else:
            src += ['def func%d():' % k]
            ind = '    '
            callname = 'func%d' % k
        src += [ind + 'r"""', ind + 'Summary.', '']
        for b, (stmts, doc, info, star) in enumerate(blocks):
            src += [ind + 'Example:']
            body = doc.split('\n')
            if disabled and b == 0:
                body = ['>>> # DISABLE_DOCTEST'] + body
            src += [(ind + '    ' + ln) if ln else '' for ln in body]
            src += ['']
            is_disabled = disabled and b == 0
            if is_disabled:
                feats.add('disabled-omitted')
            else:
                wants = [info['wants'][si] for si in sorted(info['wants'])]
                expect.append({'callname': callname, 'num': b, 'stmts': stmts, 'wants': wants, 'star': star,
                               'ref_T': info['ref_T']})
            if star:
                feats.add('star-import-removed')
            if star == 'nested' and not is_disabled:
                feats.add('star-import-nested-removed')
            for st in stmts:
                feats.add('kind:' + {'mlstr_prompt': 'mlstr', 'deco2': 'deco', 'call': 'await' if 'await' in st.lines[0] else 'call'}.get(st.kind, st.kind))
        if nblocks == 2:
            feats.add('two-blocks')
        src += [ind + '"""', ind + 'return 1', '']
    return '\n'.join(src) + '\n', expect, feats


def split_body(lines, exp_wants):
    """body lines of a dumped function -> (code lines, want blocks).  A '# doctest want:' block holds as many
    comment lines as the next expected want has (a source comment right behind it is source, not want)"""
    code = []
    wants = []
    cur = None
    room = 0
    for ln in lines:
        if ln == '# doctest want:':
            cur = []
            k = len(wants)
            room = len(exp_wants[k]) if k < len(exp_wants) else 10 ** 6
            wants.append(cur)
            continue
        if cur is not None and room > 0 and (ln.startswith('# ') or ln == '#'):
            cur.append(ln[2:])
            room -= 1
            continue
        cur = None
        code.append(ln)
    return code, wants


def norm_code(lines):
    # leading blanks are not compared (the conversion re-indents), trailing ones are: inside a string literal they
    # are part of the value
    return [ln.lstrip() for ln in lines if ln.strip()]


def check_dump_text(ctx, text, expect, modname, src, case, via, mod=None):
    def bad(mech, msg, **kw):
        ctx.violation(mech, '%s (via %s)\n--- module ---\n%s\n--- dump ---\n%s' % (msg, via, src, text), case, **kw)
        return False

    try:
        tree = ast.parse(text) if text.strip() else ast.parse('')
    except SyntaxError as ex:
        return bad('dump-invalid-python', 'the dump is not valid Python: %r' % (ex,))
    ctx.event('dumps_parsed')
    try:
        # ast.parse accepts what the compiler still rejects ('import *' inside a function, 'return' outside one ...)
        compile(text, '<dump>', 'exec')
        ctx.cell('dump-compiles')
    except SyntaxError as ex:
        if not any(m in str(ex) for m in AWAIT_ERRORS):
            return bad('dump-invalid-python', 'the dump parses but does not compile: %r' % (ex,))
        # finding F16: a doctest that uses top-level await is written into a plain 'def'.  Reported under its own
        # mechanism; the rest of the dump must still compile once the test functions are made coroutines
        ctx.violation('dump-await-in-plain-def', 'the dump parses but does not compile: %r (a doctest using top-level await '
                      'is written into a plain def) (via %s)\n--- dump ---\n%s' % (ex, via, text), case, compile_error=str(ex))
        try:
            compile(text.replace('\ndef test_', '\nasync def test_').replace('def test_', 'async def test_', 1)
                    if text.startswith('def test_') else text.replace('\ndef test_', '\nasync def test_'), '<dump>', 'exec')
            ctx.cell('dump-compiles-as-coroutines')
        except SyntaxError as ex2:
            return bad('dump-invalid-python', 'the dump does not compile even with the test functions made coroutines: %r' % (ex2,))
    fns = [n for n in tree.body if isinstance(n, ast.FunctionDef)]
    others = [n for n in tree.body if not isinstance(n, ast.FunctionDef)]
    if len(fns) != len(expect) or others:
        return bad('function-count', 'the dump holds %d test functions (+%d other statements), the module has %d enabled doctests' % (
            len(fns), len(others), len(expect)))
    names = [f.name for f in fns]
    if len(set(names)) != len(names):
        return bad('duplicate-function-name', 'several test functions share a name, the later definition replaces the '
                   'earlier one: %r' % sorted(n for n in set(names) if names.count(n) > 1))
    ctx.cell('functions-match')
    tl = text.split('\n')
    starts = [f.lineno for f in fns] + [len(tl) + 1]
    for fi, (f, exp) in enumerate(zip(fns, expect)):
        ctx.evaluation()
        want_name = 'test_%s_%s' % (modname.replace('.', '_'), exp['callname'].replace('.', '_')) + ('_%d' % exp['num'] if exp['num'] else '')
        if f.name != want_name:
            return bad('function-order', 'function %s found where the doctest of %s is expected' % (f.name, exp['callname']))
        # comments are no AST nodes: the function's text runs up to the next 'def' line
        body = tl[f.lineno: starts[fi + 1] - 1]
        while body and not body[-1].strip():
            body.pop()
        body = [ln[4:] if ln.startswith('    ') else ln for ln in body]
        # drop the docstring (three lines) and the generated import line
        if body[:1] != ['"""'] or body[2:3] != ['"""']:
            return bad('body', 'function %s does not start with the three-line docstring' % f.name)
        rest = [ln for ln in body[3:] if not ln.startswith('from %s import ' % modname)]
        code, wants = split_body(rest, exp['wants'])
        exp_code = [ln for st in exp['stmts'] for ln in st.lines
                    if not (' import *' in ln and st.kind in ('starimport', 'starimport_nested'))]
        if norm_code(code) != norm_code(exp_code):
            a, b = norm_code(code), norm_code(exp_code)
            k = next((j for j, (x, y) in enumerate(zip(a, b)) if x != y), min(len(a), len(b)))
            return bad('body', 'function %s: body line %d is %r, the doctest has %r (a statement was lost, duplicated or re-ordered)' % (
                f.name, k, a[k] if k < len(a) else None, b[k] if k < len(b) else None))
        ctx.cell('body-lines-equal')
        exp_w = [[w.strip() for w in wl] for wl in exp['wants']]
        got_w = [[w.strip() for w in wl] for wl in wants]
        if got_w != exp_w:
            return bad('wants', 'function %s: want comments %r, the doctest has wants %r' % (f.name, got_w, exp_w))
        if exp_w:
            ctx.cell('want-comments-equal')
        if any(len(w) > 1 for w in exp_w):
            ctx.cell('multi-line-want')
        if any(gp.want_is_layoutable(w) for w in exp['wants']) and any(len(st.lines) > 1 for st in exp['stmts']):
            ctx.nontrivial(src + exp['callname'])
    if mod is not None:
        return run_converted(ctx, fns, expect, mod, bad)
    return True


def run_converted(ctx, fns, expect, mod, bad):
    """
    Execute every converted test (in this process, against the imported module) and compare the statements it runs
    - the unique-id event log T of the module - with the doctest's own log from the reference run.
    """
    for f, exp in zip(fns, expect):
        try:
            code = compile(ast.Module(body=[f], type_ignores=[]), '<dumped %s>' % f.name, 'exec')
        except SyntaxError as ex:
            if any(m in str(ex) for m in AWAIT_ERRORS):
                ctx.cell('converted-test-not-runnable:await (F16)')
                continue
            return bad('dump-invalid-python', 'function %s does not compile on its own: %r' % (f.name, ex))
        if any(ln.strip().startswith('global ') for st in exp['stmts'] for ln in st.lines):
            # a 'global' statement names the doctest's own namespace; inside the test function it names the globals of
            # the dumped module: the conversion wraps, it does not translate
            ctx.cell('converted-test-not-comparable:global-statement')
            continue
        ns = {'__name__': 'dumped_tests'}
        exec(code, ns)
        del mod.T[:]
        raised = None
        try:
            with contextlib.redirect_stdout(io.StringIO()), contextlib.redirect_stderr(io.StringIO()):
                ns[f.name]()
        except Exception as ex:
            raised = ex
        got_T = list(mod.T)
        ctx.event('converted_tests_executed')
        expected_excs = {st.expected_exc for st in exp['stmts'] if st.expected_exc}
        if raised is not None:
            if type(raised).__name__ in expected_excs and got_T == exp['ref_T'][:len(got_T)]:
                # a statement that raises on purpose (its want is the traceback): the converted test stops there
                ctx.cell('converted-test-stops-at-expected-exception')
                continue
            return bad('converted-test-raised', 'the converted test %s raises %s: %s; it ran the statements %r, the doctest '
                       'runs %r' % (f.name, type(raised).__name__, raised, got_T, exp['ref_T']), exc=type(raised).__name__)
        if got_T != exp['ref_T']:
            return bad('converted-test-trace', 'the converted test %s runs the statements %r, the doctest runs %r' % (
                f.name, got_T, exp['ref_T']))
        ctx.cell('converted-test-runs-the-same-statements')
        if any(st.kind == 'usepriv' for st in exp['stmts']):
            ctx.cell('converted-test-uses-private-module-names')
    return True


def check_module(ctx, idx, seed, cli=False):
    from xdoctest import runner
    rng = random.Random(seed)
    uid = '%dx%d' % (ctx.seed, idx)
    src, expect, feats = gen_module(rng, uid)
    compile(src, '<gen>', 'exec')
    modname = 'dmod_%d_%d_%d_zz' % (ctx.seed, ctx.shard, idx)
    path = os.path.join(ctx.tmp, modname + '.py')
    pkgdir = None
    if idx % 6 == 4:
        # the doctests live in the __main__.py of a package; its __init__.py either defines nothing or the same names
        # (an event log and helpers of its own): the converted tests must import from pkg.__main__, not from pkg
        pkgdir = os.path.join(ctx.tmp, 'dpk_%d_%d_%d_zz' % (ctx.seed, ctx.shard, idx))
        os.mkdir(pkgdir)
        with open(os.path.join(pkgdir, '__init__.py'), 'w') as f:
            f.write('' if idx % 12 == 4 else 'T = []\n' + gp.PRELUDE + '\n')
        modname = os.path.basename(pkgdir) + '.__main__'
        path = os.path.join(pkgdir, '__main__.py')
        feats.add('doctests-in-package-main')
    with open(path, 'w') as f:
        f.write(src)
    case = {'index': idx, 'case_seed': seed, 'cli': cli}
    ctx.evaluation()
    try:
        buf = io.StringIO()
        try:
            with contextlib.redirect_stdout(buf), warnings.catch_warnings():
                warnings.simplefilter('ignore')
                runner.doctest_module(path, 'dump', argv=[''], verbose=0, style='google')
        except BaseException as ex:
            ctx.violation('dump-raised', "doctest_module(path, 'dump') raised %r\n--- module ---\n%s" % (ex, src), case)
            return
        # the module the converted tests import from ('from <modname> import ...')
        import importlib.util
        if pkgdir is not None:
            # the package itself, importable the ordinary way
            pspec = importlib.util.spec_from_file_location(os.path.basename(pkgdir), os.path.join(pkgdir, '__init__.py'),
                                                           submodule_search_locations=[pkgdir])
            pmod = importlib.util.module_from_spec(pspec)
            sys.modules[os.path.basename(pkgdir)] = pmod
            pspec.loader.exec_module(pmod)
        spec = importlib.util.spec_from_file_location(modname, path)
        mod = importlib.util.module_from_spec(spec)
        sys.modules[modname] = mod
        with contextlib.redirect_stdout(io.StringIO()):
            spec.loader.exec_module(mod)
        ok = check_dump_text(ctx, buf.getvalue().rstrip('\n'), expect, modname, src, case, 'runner.doctest_module', mod=mod)
        if ok and cli:
            ctx.evaluation()
            p = subprocess.run([sys.executable, '-m', 'xdoctest', path, 'dump', '--style=google', '--verbose=0'],
                               cwd=ctx.tmp, stdout=subprocess.PIPE, stderr=subprocess.PIPE, text=True, timeout=180)
            ctx.event('cli_runs')
            if p.returncode != 0:
                ctx.violation('dump-raised', 'CLI dump exits %d: %s' % (p.returncode, p.stderr[-800:]), case)
            elif check_dump_text(ctx, p.stdout.rstrip('\n'), expect, modname, src, case, 'CLI'):
                ctx.cell('cli')
        if ok:
            for f in feats:
                ctx.cell(f)
            if ctx.shard == 0:
                ctx.sample({'module_source': src[:1500], 'dump': buf.getvalue()[:1500]}, limit=1)
    finally:
        os.unlink(path)
        sys.modules.pop(modname, None)
        if pkgdir is not None:
            import shutil
            shutil.rmtree(pkgdir, ignore_errors=True)
            sys.modules.pop(os.path.basename(pkgdir), None)


def run_shard(ctx):
    warnings.simplefilter('ignore')
    n = ctx.pick(800, 12000)
    ncli = ctx.pick(16, 100)
    for idx in ctx.my_indices(n):
        check_module(ctx, idx, ctx.case_seed(idx), cli=idx < ncli)


def replay(case, ctx):
    warnings.simplefilter('ignore')
    check_module(ctx, case['index'], case['case_seed'], cli=case.get('cli', False))


def classify(v):
    # F16 by mechanism: the compiler's complaint is about await / async constructs outside a coroutine
    if v.get('mechanism') == 'dump-await-in-plain-def' and any(m in v.get('compile_error', '') for m in AWAIT_ERRORS):
        return 'dump-await-in-plain-def'
    return None


LEVEL_TEXT = ("Exploration: hundreds/thousands of generated modules are converted by the real dump command; the output is "
              "parsed with ast and each function body is compared line by line with the de-prompted doctest, the want comment "
              "blocks with the wants; every converted test is then executed and the statements it runs (unique-id event log) "
              "are compared with the doctest's own.")
LEVEL_NOTE = ("Trusted: ast.parse + compile() for 'valid Python'; the generator's statement list as the ground truth of what the doctest "
              "holds.")
TECHNIQUE = "runtime monitor: stdout of the dump command parsed with ast and compared line-by-line with the generator's statement list (conservation of statements and wants); converted tests executed, their unique-id event log compared with the doctest's reference run"

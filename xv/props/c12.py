"""
C12 - Process-global state is restored after every outcome.

Fault enumeration: outcome kind x on_error x position of the terminating statement x body flavour x
verbosity, plus utils.import_module_from_path on good / raising / syntax-error / missing / packaged
modules.  Monitor M-D (xv.monitors.ProcState) snapshots the process state before and after every
monitored call, whatever it returned or raised; a loop tracker records every event loop created
during the call.  Thorough tier: the same workload under `python -X dev -W error::ResourceWarning`
with gc.collect() at quiescent points and sys.unraisablehook counting reports.
"""
import io
import os
import gc
import sys
import json
import random
import warnings
import itertools
import contextlib
import subprocess

from xv import monitors

PROPERTY = 'C12'
LEVEL = 'fault_enumeration'
RULE = ("outcome {pass, output mismatch, exception, expected exception, ExitTestException, pytest.skip() in the body, all "
        "skipped, bad directive, compile-only error, SystemExit, KeyboardInterrupt, SystemExit / KeyboardInterrupt / "
        "exception inside a coroutine, import failure of the module under test} x on_error {return, raise} x position of "
        "the terminating statement {first, middle, last} x body flavour {prints, replaces sys.stdout without restoring it, "
        "tightens warning filters, awaits, plain} x verbosity {0, 3}: every combination once (exhaustive=true for this "
        "table); plus utils.import_module_from_path x {good module, module raising at import, syntax error, missing file, "
        "module inside a package, same with index=0}.  Every combination is non-trivial; distinct by (doctest text, "
        "on_error, verbosity)")
ASSUMPTIONS = [
    "sys.stdout replaced by the module under test at import time (xdoctest performs that import inside run) or by the "
    "configured global_exec code is treated like a replacement by the doctest body; the same for sys.stderr is not "
    "generated (xdoctest does not manage that stream, the property's quantifier names bodies that replace sys.stdout)",
    "interrupts are injected only at doctest statements (the property's quantifier), never inside xdoctest's own frames",
    "changes a doctest makes to sys.path, sys.stderr or the working directory itself are the doctest's business and are "
    "not generated; stdout and warning filters are generated because the library promises to contain them",
    "the compared state: identity of sys.stdout/stderr/stdin/displayhook/excepthook and warnings.showwarning, value of "
    "sys.path, warnings.filters and the cwd, whether a loop is running, every loop created during the call closed",
]
NSHARDS = {'quick': 16, 'thorough': 16}
RULE += (' Flavours added during the build: the body closes the stream it prints to; a statement that REQUIRES a module while sys.path starts with the empty string.')

OUTCOMES = {
    'pass': [],
    'mismatch': ['>>> print("a")', 'b'],
    'exception': ['>>> raise ValueError("v")'],
    'expected_exc': ['>>> raise ValueError("v")', 'Traceback (most recent call last):', 'ValueError: v'],
    'early_exit': ['>>> from xdoctest.exceptions import ExitTestException', '>>> raise ExitTestException()'],
    'pytest_skip': ['>>> import pytest', '>>> pytest.skip("s")'],
    'all_skip': None,      # block +SKIP at the top
    'bad_directive': ['>>> zz = 1  # xdoctest: +REQUIRES(notatag)'],
    'compile_err': ['>>> return 1'],
    'sysexit': ['>>> import sys', '>>> sys.exit(3)'],
    'kbint': ['>>> raise KeyboardInterrupt()'],
    'coro_exception': ['>>> async def cf():', '...     raise ValueError("in coro")', '>>> await cf()'],
    'coro_sysexit': ['>>> import sys', '>>> async def cf():', '...     sys.exit(2)', '>>> await cf()'],
    'coro_kbint': ['>>> async def cf():', '...     raise KeyboardInterrupt()', '>>> await cf()'],
}
FLAVOURS = {
    'plain': [],
    'prints': ['>>> print("flavour")'],
    'replace_stdout': ['>>> import sys, io', '>>> sys.stdout = io.StringIO()', '>>> print("lost")'],
    'warnfilter': ['>>> import warnings', '>>> warnings.simplefilter("error")',
                   '>>> warnings.filterwarnings("ignore", message="zzz")'],
    'awaits': ['>>> import asyncio', '>>> await asyncio.sleep(0)'],
    # the body closes the stream it prints to (code under test that closes the file it was handed): that stream is the
    # library's capture stream, every later part of the run has to cope with it
    'closes_stdout': ['>>> import sys', '>>> sys.stdout.close()'],
    # a statement that depends on an optional module: the module's name is looked up along sys.path (which, in this
    # flavour, starts with the empty string like in an interactive session or under python -c)
    'requires_module': ['>>> opt_zz = 1  # xdoctest: +REQUIRES(module:xv_nx_{n}_zz)'],
}
_COUNTER = [0]
POSITIONS = ['first', 'middle', 'last']
ON_ERROR = ['return', 'raise']
VERBOSE = [0, 3]
MODES = ['native', 'pytest']
IMPORT_KINDS = ['good', 'raises', 'syntax', 'missing', 'packaged', 'packaged_index0', 'good_twice', 'rotates_syspath',
                'shrinks_syspath', 'rotates_syspath_werror',
                'root_first_on_syspath', 'root_inside_syspath', 'root_first_on_syspath_index0',
                'raises_root_first_on_syspath', 'raises_root_inside_syspath', 'syntax_root_first_on_syspath']


def required_cells(tier):
    return (['outcome:' + k for k in OUTCOMES] + ['outcome:import_failure'] + ['flavour:' + f for f in FLAVOURS] +
            ['pos:' + p for p in POSITIONS] + ['on_error:return', 'on_error:raise', 'verbose:0', 'verbose:3', 'mode:native', 'mode:pytest'] +
            ['import:' + k for k in IMPORT_KINDS] + ['loops-created-and-closed', 'result:returned', 'result:raised', 'side-effect:module-import:stdout',
             'side-effect:global_exec:stdout', 'lazy-collection:parse_doctestables', 'lazy-collection:package_calldefs'] +
            (['dev-pass'] if tier == 'thorough' else []))


def build(outcome, flavour, pos):
    pre = {'first': 0, 'middle': 2, 'last': 2}[pos]
    post = {'first': 2, 'middle': 2, 'last': 0}[pos]
    L = []
    if outcome == 'all_skip':
        L.append('>>> # xdoctest: +SKIP')
    _COUNTER[0] += 1
    L += [ln.replace('{n}', '%d_%d' % (os.getpid(), _COUNTER[0])) for ln in FLAVOURS[flavour]]
    for k in range(pre):
        L += ['>>> a%d = %d' % (k, k)]
    L += OUTCOMES[outcome] or []
    for k in range(post):
        L += ['>>> b%d = %d' % (k, k)]
    if not L:
        L = ['>>> x = 1']
    return '\n'.join(L)


def monitored(ctx, what, fn, case, describe, path_as_multiset=False):
    """call fn() between two state snapshots with the loop tracker on.  path_as_multiset: the monitored code itself
    re-orders sys.path on purpose; then 'the entries it had before' is judged as a multiset"""
    before = monitors.ProcState()
    real_out, real_err = sys.stdout, sys.stderr
    result = None
    with monitors.LoopTracker() as lt:
        try:
            result = ('returned', fn())
        except BaseException as ex:      # SystemExit / KeyboardInterrupt included
            result = ('raised', ex)
    after = monitors.ProcState()
    diffs = before.diff(after)
    if path_as_multiset and sorted(before.path) == sorted(after.path):
        diffs = [d for d in diffs if d[0] != 'sys.path']
    ctx.event('state_snapshots_compared')
    # put the process back so that one leak does not cascade into every later case
    sys.stdout, sys.stderr = real_out, real_err
    sys.path[:] = before.path
    warnings.filters[:] = before.filters
    try:
        warnings._filters_mutated()
    except Exception:
        pass
    os.chdir(before.cwd)
    ok = True
    if diffs:
        ctx.violation('state-leak', '%s left the process changed: %s (call %s %r)\n%s' % (
            what, '; '.join('%s: %s -> %s' % d for d in diffs), result[0],
            result[1] if result[0] == 'raised' else '', describe), case, leaked=[d[0] for d in diffs])
        ok = False
    unclosed = lt.unclosed()
    ctx.event('event_loops_tracked', len(lt.loops))
    if unclosed:
        ctx.violation('loop-leak', '%s created %d event loop(s) and left %d open (%s)\n%s' % (
            what, len(lt.loops), len(unclosed), result[0], describe), case)
        for lp in unclosed:
            try:
                lp.close()
            except Exception:
                pass
        ok = False
    elif lt.loops:
        ctx.cell('loops-created-and-closed')
    return result, ok


def check_doctest(ctx, outcome, flavour, pos, on_error, verbose, mode='native'):
    from xdoctest import doctest_example
    doc = build(outcome, flavour, pos)
    case = {'kind': 'doctest', 'outcome': outcome, 'flavour': flavour, 'pos': pos, 'on_error': on_error,
            'verbose': verbose, 'doc': doc, 'mode': mode}
    ctx.evaluation()
    ctx.nontrivial((doc, on_error, verbose, mode))
    dt = doctest_example.DocTest(doc)
    # 'native' is what the runner sets; 'pytest' is the default of a DocTest (plugin items, direct API use)
    dt.mode = mode
    sink = io.StringIO()

    def call():
        # the harness' own redirection is established and torn down outside the monitored window
        return dt.run(on_error=on_error, verbose=verbose)

    real = sys.stdout
    sys.stdout = sink if verbose else real
    if flavour == 'requires_module':
        sys.path.insert(0, '')
    try:
        result, ok = monitored(ctx, 'DocTest.run(on_error=%r, verbose=%d) in mode %r' % (on_error, verbose, mode), call, case,
                               '--- doctest (%s / %s / %s) ---\n%s' % (outcome, flavour, pos, doc))
    finally:
        sys.stdout = real
        if flavour == 'requires_module':
            for spelled in ('', '.'):
                if sys.path and sys.path[0] == spelled:
                    del sys.path[0]
                    break
    if ok:
        ctx.cell('outcome:' + outcome)
        ctx.cell('flavour:' + flavour)
        ctx.cell('pos:' + pos)
        ctx.cell('on_error:' + on_error)
        ctx.cell('verbose:%d' % verbose)
        ctx.cell('mode:' + mode)
        ctx.cell('result:' + result[0])
        if ctx.shard == 0 and outcome in ('coro_sysexit', 'kbint', 'mismatch'):
            ctx.sample({'doctest': doc, 'on_error': on_error, 'verbose': verbose,
                        'call': result[0] + (':' + type(result[1]).__name__ if result[0] == 'raised' else ''),
                        'state_diff': []}, limit=3)


def make_import_targets(root):
    t = {}

    def w(rel, text):
        p = os.path.join(root, rel)
        os.makedirs(os.path.dirname(p), exist_ok=True)
        with open(p, 'w') as f:
            f.write(text)
        return p
    t['good'] = w('impok_zz.py', '"""\n>>> print(1)\n1\n"""\nX = 1\n')
    t['good_twice'] = t['good']
    t['raises'] = w('impfail_zz.py', '"""\n>>> print(1)\n"""\nraise RuntimeError("import fails")\n')
    t['syntax'] = w('impsyn_zz.py', '"""\n>>> print(1)\n1\n"""\ndef (:\n')
    t['missing'] = os.path.join(root, 'no_such_file_zz.py')
    w('pkgc12_zz/__init__.py', '')
    w('pkgc12_zz/sub/__init__.py', '')
    t['packaged'] = w('pkgc12_zz/sub/leaf.py', 'from pkgc12_zz import sub\nY = 2\n')
    t['packaged_index0'] = t['packaged']
    # import-time code that re-orders sys.path (every entry is kept): the temporary entry moves with the others
    t['rotates_syspath'] = w('rot_zz/improt_zz.py', 'import sys\n_first = sys.path.pop(0)\nsys.path.append(_first)\nZ = 3\n')
    t['rotates_syspath_werror'] = w('rotw_zz/improtw_zz.py', 'import sys\n_first = sys.path.pop(0)\nsys.path.append(_first)\nZ = 3\n')
    # import-time code that removes the first sys.path entry (finding F41); the harness puts that entry back before the
    # comparison, what must be gone is the temporary entry
    t['shrinks_syspath'] = w('shr_zz/impshr_zz.py', 'import sys\n_gone = sys.path.pop(0)\nV = 5\n')
    # the module's import root is already on sys.path (at the front / in the middle) when it is imported by path
    t['root_first_on_syspath'] = w('onpath_zz/impon_zz.py', 'W = 4\n')
    t['root_inside_syspath'] = t['root_first_on_syspath']
    t['root_first_on_syspath_index0'] = t['root_first_on_syspath']
    # the same, but the import fails: the entry that was there before must still be there afterwards
    t['raises_root_first_on_syspath'] = w('onpathbad_zz/impbad_zz.py', 'raise RuntimeError("import fails")\n')
    t['raises_root_inside_syspath'] = t['raises_root_first_on_syspath']
    t['syntax_root_first_on_syspath'] = w('onpathsyn_zz/impsynb_zz.py', 'def (:\n')
    return t


def check_imports(ctx):
    from xdoctest import utils, core
    root = os.path.join(ctx.tmp, 'imp_%d' % ctx.shard)
    os.makedirs(root, exist_ok=True)
    targets = make_import_targets(root)
    for kind in IMPORT_KINDS:
        p = targets[kind]
        case = {'kind': 'import', 'import_kind': kind}
        ctx.evaluation()
        ctx.nontrivial(('import', kind))
        kw = {'index': 0} if kind.endswith('index0') else {}
        for name in [k for k in sys.modules if k.endswith('_zz') or k.startswith('pkgc12_zz')]:
            if kind != 'good_twice':
                del sys.modules[name]
        saved_path = list(sys.path)
        if 'root_first' in kind:
            sys.path.insert(0, os.path.dirname(p))
        elif 'root_inside' in kind:
            sys.path.insert(len(sys.path) // 2, os.path.dirname(p))
        def call(p=p, kw=kw, kind=kind):
            first = sys.path[0]
            try:
                if kind == 'rotates_syspath_werror':
                    # warnings are errors while the module is imported (python -W error): the notice about the changed
                    # sys.path may raise, the temporary entry must be gone all the same (finding F44)
                    with warnings.catch_warnings():
                        warnings.simplefilter('error')
                        return utils.import_module_from_path(p, **kw)
                return utils.import_module_from_path(p, **kw)
            finally:
                if kind == 'shrinks_syspath' and (not sys.path or sys.path[0] != first):
                    sys.path.insert(0, first)
        try:
            result, ok = monitored(ctx, 'utils.import_module_from_path(%s)' % kind,
                                   call, case, 'target %s' % p,
                                   path_as_multiset=kind.startswith('rotates_syspath'))
        finally:
            sys.path[:] = saved_path
        if ok:
            if kind in ('good', 'good_twice', 'packaged', 'packaged_index0', 'rotates_syspath', 'shrinks_syspath', 'root_first_on_syspath',
                        'root_inside_syspath', 'root_first_on_syspath_index0') and result[0] != 'returned':
                ctx.violation('import-failed', 'importing the %s module by path raised %r' % (kind, result[1]), case)
            else:
                ctx.cell('import:' + kind)
    # a doctest of a module that fails to import
    for on_error in ON_ERROR:
        for verbose in VERBOSE:
            p = targets['raises']
            sys.modules.pop('impfail_zz', None)
            with warnings.catch_warnings(), contextlib.redirect_stdout(io.StringIO()):
                warnings.simplefilter('ignore')
                exs = list(core.parse_doctestables(p, analysis='static'))
            for e in exs:
                e.mode = 'native'
                case = {'kind': 'import-doctest', 'on_error': on_error, 'verbose': verbose}
                ctx.evaluation()
                real = sys.stdout
                sys.stdout = io.StringIO() if verbose else real
                try:
                    result, ok = monitored(ctx, 'DocTest.run of a module whose import fails (on_error=%r)' % on_error,
                                           lambda: e.run(on_error=on_error, verbose=verbose), case, p)
                finally:
                    sys.stdout = real
                if ok:
                    ctx.cell('outcome:import_failure')


SIDE_BODIES = {'pass': ['>>> print("a")', 'a'], 'mismatch': ['>>> print("a")', 'b'], 'exception': ['>>> raise ValueError("v")'],
               'nowant': ['>>> x = 1'], 'expected_exc': ['>>> raise ValueError("v")', 'Traceback (most recent call last):',
                                                          'ValueError: v']}


def check_side_effect_sources(ctx):
    """the stream is replaced not by the doctest body but by the module under test at import time (xdoctest does
    that import itself, inside run) or by the configured global_exec code"""
    from xdoctest import doctest_example
    root = os.path.join(ctx.tmp, 'side_%d' % ctx.shard)
    os.makedirs(root, exist_ok=True)
    n = 0
    for source in ('module-import', 'global_exec'):
        # (sys.stderr is not generated here: xdoctest never swaps it, and a module that rebinds it at import time is
        # outside the property's quantifier, which is about doctest bodies and the streams xdoctest manages)
        for stream in ('stdout',):
            for outcome, body in sorted(SIDE_BODIES.items()):
                for on_error in ON_ERROR:
                    n += 1
                    case = {'kind': 'side-effect-source', 'source': source, 'stream': stream, 'outcome': outcome,
                            'on_error': on_error}
                    ctx.evaluation()
                    ctx.nontrivial(('side', source, stream, outcome, on_error))
                    modname = 'sidefx_%d_%d_zz' % (ctx.shard, n)
                    path = os.path.join(root, modname + '.py')
                    with open(path, 'w') as f:
                        if source == 'module-import':
                            f.write('import sys, io\nsys.%s = io.StringIO()\n' % stream)
                        f.write('def host():\n    return 1\n')
                    dt = doctest_example.DocTest('\n'.join(body), modpath=path, callname='host')
                    dt.mode = 'native'
                    if source == 'global_exec':
                        dt.config['global_exec'] = 'import sys, io\\nsys.%s = io.StringIO()' % stream
                    result, ok = monitored(ctx, 'DocTest.run(on_error=%r) with sys.%s replaced by %s' % (on_error, stream, source),
                                           lambda: dt.run(on_error=on_error, verbose=0), case, open(path).read())
                    sys.modules.pop(modname, None)
                    if ok:
                        ctx.cell('side-effect:%s:%s' % (source, stream))


def all_combos():
    return list(itertools.product(sorted(OUTCOMES), sorted(FLAVOURS), POSITIONS, ON_ERROR, VERBOSE, MODES))


def check_lazy_collection(ctx):
    """
    The collection generators consumed lazily, the way a custom runner does (take a doctest, run it, take the next): the
    process state must be the caller's own whenever control is with the caller, also while a generator is suspended,
    and what the caller changes in between (here: one more warning filter) must survive the generator's end.
    """
    from xdoctest import core
    d = os.path.join(ctx.tmp, 'lazy_%d' % ctx.shard)
    os.makedirs(d, exist_ok=True)
    pkg = os.path.join(d, 'lazypkg_%d_zz' % ctx.shard)
    os.makedirs(pkg, exist_ok=True)
    body = 'def f{n}():\n    """\n    Example:\n        >>> print({n})\n        {n}\n    """\n\n'
    for name, ns in (('__init__', (1,)), ('m_a', (2, 3)), ('m_b', (4,))):
        with open(os.path.join(pkg, name + '.py'), 'w') as f:
            f.write(''.join(body.format(n=n) for n in ns))
    for what, make in (('parse_doctestables(package)', lambda: core.parse_doctestables(pkg, style='google')),
                       ('parse_doctestables(module)', lambda: core.parse_doctestables(os.path.join(pkg, 'm_a.py'), style='google')),
                       ('package_calldefs(package)', lambda: core.package_calldefs(pkg))):
        ctx.evaluation()
        case = {'kind': 'lazy-collection', 'what': what}
        ctx.nontrivial(('lazy', what))
        saved_filters = list(warnings.filters)
        before = monitors.ProcState()
        gen = make()
        ok = True
        steps = 0
        try:
            while True:
                try:
                    item = next(gen)
                except StopIteration:
                    break
                steps += 1
                d1 = before.diff(monitors.ProcState())
                if d1:
                    ctx.violation('state-leak', '%s, consumed lazily: with the generator suspended after item %d the process is '
                                  'changed: %r' % (what, steps, d1), case)
                    ok = False
                    break
                if hasattr(item, 'run'):
                    item.mode = 'native'
                    with contextlib.redirect_stdout(io.StringIO()):
                        item.run(verbose=0, on_error='return')
                if steps == 1:
                    # the caller changes something of its own while the generator is suspended
                    warnings.simplefilter('error', ResourceWarning)
                    before = monitors.ProcState()
            if ok:
                d2 = before.diff(monitors.ProcState())
                if d2:
                    ctx.violation('state-leak', '%s, consumed lazily: after the generator ended the process differs from what '
                                  'the caller left (a filter the caller installed in between must survive): %r' % (what, d2), case)
                    ok = False
        finally:
            warnings.filters[:] = saved_filters
            if hasattr(warnings, '_filters_mutated'):
                warnings._filters_mutated()
        ctx.event('lazy_collection_steps', steps)
        if ok and steps >= 2:
            ctx.cell('lazy-collection:' + what.split('(')[0])


def run_shard(ctx):
    warnings.simplefilter('ignore')
    combos = all_combos()
    ctx.notes['fault_table_cells'] = len(combos)
    ctx.exhaustive = True
    reps = ctx.pick(1, 3)
    for rep in range(reps):
        for i in ctx.my_indices(len(combos)):
            check_doctest(ctx, *combos[i])
    if ctx.shard in (0, 1):
        check_imports(ctx)
    if ctx.shard in (4 % ctx.nshards, 5 % ctx.nshards):
        check_lazy_collection(ctx)
    if ctx.shard in (2 % ctx.nshards, 3 % ctx.nshards):
        check_side_effect_sources(ctx)
    if not ctx.quick() and ctx.shard == 0:
        dev_pass_from_parent(ctx)


# ------------------------------------------------------------------ -X dev pass (thorough)

def dev_pass_from_parent(ctx):
    cmd = [sys.executable, '-X', 'dev', '-W', 'error::ResourceWarning', '-m', 'xv.props.c12', ctx.tmp]
    p = subprocess.run(cmd, stdout=subprocess.PIPE, stderr=subprocess.PIPE, text=True, timeout=3000, cwd=ctx.tmp)
    if p.returncode != 0 or not p.stdout.strip():
        raise AssertionError('dev pass failed: %s' % p.stderr[-3000:])
    rep = json.loads(p.stdout.strip().splitlines()[-1])
    ctx.event('devpass_runs', rep['runs'])
    ctx.event('devpass_loops_created', rep['loops'])
    ctx.evaluation(rep['runs'])
    if rep['unclosed'] or rep['leaks']:
        ctx.violation('dev-pass', 'under -X dev: %d unclosed loops, %d state leaks: %r' % (
            rep['unclosed'], len(rep['leaks']), rep['leaks'][:3]), {'kind': 'devpass'})
    bad = [u for u in rep['unraisable'] if 'xdoctest' in u[2]]
    if bad:
        ctx.violation('dev-pass-unraisable', 'sys.unraisablehook reports from xdoctest frames under -X dev '
                      '-W error::ResourceWarning: %r' % (bad[:3],), {'kind': 'devpass'})
    if not rep['unclosed'] and not rep['leaks'] and not bad:
        ctx.cell('dev-pass')


def dev_pass_main(tmp):
    import traceback
    from xdoctest import doctest_example
    warnings.simplefilter('ignore')
    warnings.filterwarnings('error', category=ResourceWarning)
    UNR = []

    def hook(u):
        tb = ''.join(traceback.format_exception(type(u.exc_value), u.exc_value, u.exc_traceback)) if u.exc_value else ''
        UNR.append((type(u.exc_value).__name__, str(u.exc_value)[:200], tb[-1500:] + repr(u.object)[:200]))
    sys.unraisablehook = hook
    runs = loops = unclosed = 0
    leaks = []
    for outcome, flavour, pos, on_error, verbose, mode in all_combos():
        if verbose:
            continue
        doc = build(outcome, flavour, pos)
        dt = doctest_example.DocTest(doc)
        dt.mode = mode
        before = monitors.ProcState()
        real = sys.stdout
        with monitors.LoopTracker() as lt:
            try:
                dt.run(on_error=on_error, verbose=0)
            except BaseException:
                pass
        after = monitors.ProcState()
        d = before.diff(after)
        sys.stdout = real
        sys.path[:] = before.path
        warnings.filters[:] = before.filters
        if d:
            leaks.append([outcome, flavour, pos, on_error, mode, [x[0] for x in d]])
        runs += 1
        loops += len(lt.loops)
        unclosed += len(lt.unclosed())
        del dt
        gc.collect()
    gc.collect()
    sys.stdout.write(json.dumps({'runs': runs, 'loops': loops, 'unclosed': unclosed, 'leaks': leaks,
                                 'unraisable': UNR[:20]}) + '\n')


def replay(case, ctx):
    warnings.simplefilter('ignore')
    if case['kind'] == 'doctest':
        check_doctest(ctx, case['outcome'], case['flavour'], case['pos'], case['on_error'], case['verbose'],
                      case.get('mode', 'native'))
    elif case['kind'] == 'devpass':
        dev_pass_from_parent(ctx)
    elif case['kind'] == 'side-effect-source':
        check_side_effect_sources(ctx)
    elif case['kind'] == 'lazy-collection':
        check_lazy_collection(ctx)
    else:
        check_imports(ctx)


def classify(v):
    return None


LEVEL_TEXT = ("Fault enumeration: the full table outcome x flavour x position x on_error x verbosity x mode (2352 runs) plus the import "
              "kinds is executed with a process-state 'leak sanitizer' around every call: identities and values of the "
              "process globals before and after must be equal whatever the call returned or raised (SystemExit and "
              "KeyboardInterrupt included) and every event loop created in between must be closed.  Thorough adds a -X dev "
              "pass with ResourceWarning as error and unraisable-hook accounting.")
LEVEL_NOTE = ("Trusted: the snapshot covers the state the property names plus stdin/hooks/cwd; leaks of other globals are not "
              "seen.  The harness restores the process after a reported leak so that one defect is reported once per cell.")
TECHNIQUE = "runtime monitor: process-state sanitizer (before/after snapshots of sys.stdout/stderr/path, warning filters, hooks, cwd, running loop) + event-loop tracker over a fault-enumeration table; -X dev / ResourceWarning / unraisablehook pass"


if __name__ == '__main__':
    dev_pass_main(sys.argv[1])

"""
C16 - Static and dynamic analysis find the same doctests.

Differential monitor: the same generated module is collected by reading the source (AST visitor)
and by importing it (walk of the module and class dictionaries); the two independent collectors
are each other's oracle.  The generator's manifest is a third witness that tells which side is wrong.
"""
import io
import os
import sys
import random
import warnings
import contextlib

from xv import gen_modules as gm

PROPERTY = 'C16'
LEVEL = 'exploration'
RULE = ("the C07 module generator (functions, async functions, classes, static/class methods, properties with setters "
        "and deleters, functools.wraps-decorated callables, definitions inside if/try/with blocks, a __main__ guard, nested "
        "definitions, imported names that must be ignored) restricted to modules in which every def/class statement is "
        "executed exactly once at import and no callable is bound under a second name; each module x {google, freeform, "
        "auto} is collected with analysis='static' and analysis='dynamic'.  Non-trivial = at least three collectable "
        "callables of two different kinds; distinct by source hash")
ASSUMPTIONS = [
    "the property's own precondition: callables are defined by ordinary def/class statements executed once at import, "
    "no aliases, no redefinitions",
    "modules import cleanly and have no side effects besides definitions",
]
NSHARDS = {'quick': 16, 'thorough': 16}
RULE += (' Module features added during the build: definitions re-wrapped by assignment, class-private methods, decorators older than functools.wraps, aliased imports from a sibling; every seventh module is the __main__.py of a package whose __init__.py has a doctest of its own.')
STYLES = ['google', 'freeform', 'auto']


def required_cells(tier):
    return ['agree:google', 'agree:freeform', 'agree:auto', 'feature:async', 'feature:method:prop',
            'feature:method:static', 'feature:method:cls', 'feature:method:wrapped', 'feature:top:deco',
            'feature:top:main', 'feature:method:setter', 'feature:top:ctxmgr', 'feature:top:subclass', 'feature:module-dir-hook', 'feature:top:handler', 'feature:top:matcharm', 'feature:top:tryelse', 'feature:top:forbody', 'feature:method:setter_stacked', 'feature:method:getter_again', 'feature:top:notmain', 'feature:method:ctxmethod', 'feature:top:rewrap', 'feature:method:rewrapped', 'feature:method:private', 'feature:top:odeco', 'feature:method:owrapped', 'feature:file-is-a-package-main',
            'feature:encoding:utf-8', 'feature:encoding:utf-8-sig', 'feature:encoding:latin-1',
            'feature:wraps-aliased-imports-from-a-sibling']


def collect(path, style, analysis):
    from xdoctest import core
    with warnings.catch_warnings(record=True), contextlib.redirect_stdout(io.StringIO()):
        warnings.simplefilter('always')
        return list(core.parse_doctestables(path, style=style, analysis=analysis))


def check_module(ctx, idx, seed):
    rng = random.Random(seed)
    spec = gm.ModuleGen(rng, idx).generate()
    modname = 'sd_%d_%d_%d_zz' % (ctx.seed, ctx.shard, idx)
    path = os.path.join(ctx.tmp, modname + '.py')
    pkg_dir = None
    if idx % 7 == 3:
        # the module is the __main__.py of a package whose __init__.py has a doctest of its own: both analyses look at
        # the file they were given, not at the package
        pkg_dir = os.path.join(ctx.tmp, modname)
        os.mkdir(pkg_dir)
        mi = 'U%dx9797_0' % idx
        with open(os.path.join(pkg_dir, '__init__.py'), 'w') as f:
            f.write('def api_zz():\n    """\n    Example:\n        >>> print("%s")\n        %s\n    """\n    return 1\n' % (mi, mi))
        spec.forbidden[mi] = 'defined in the __init__.py of the package, the file under analysis is its __main__.py'
        spec.features.add('file-is-a-package-main')
        path = os.path.join(pkg_dir, '__main__.py')
    # the encoding of the file: utf-8, utf-8 with a byte order mark, or latin-1 declared by a cookie; a doctest with
    # non-ASCII text shows whether both analyses read the same characters (findings F33 / F33b)
    enc = ['utf-8', 'utf-8', 'utf-8-sig', 'latin-1'][idx % 4]
    src = spec.src
    if enc != 'utf-8' or idx % 8 == 0:
        m = 'U%dx9999_0' % idx
        src += ('\ndef enc_zz():\n    """\n    Example:\n        >>> print("caf\xe9 na\xefve %s")\n        caf\xe9 na\xefve %s\n    """\n'
                % (m, m))
        spec.inventory['enc_zz'] = gm.DocSpec('google', [m])
        spec.features.add('encoding:' + enc)
        if enc == 'latin-1':
            src = '# -*- coding: latin-1 -*-\n' + src
        spec.src = src
    sib_path = None
    if idx % 5 == 2:
        # names imported from a sibling module under an alias, and definitions of the module's own that carry the
        # imported objects' original names (wrapping / subclassing a sibling's definition)
        sibname = 'sib_%d_%d_%d_zz' % (ctx.seed, ctx.shard, idx)
        sib_path = os.path.join(ctx.tmp, sibname + '.py')
        ms, mo1, mo2, mo3 = ['U%dx98%d_0' % (idx, j) for j in range(4)]
        with open(sib_path, 'w') as f:
            f.write('def helper_zz():\n    """\n    Example:\n        >>> print("%s")\n        %s\n    """\n    return 1\n\n'
                    'class SibK_zz:\n    def m(self):\n        return 2\n' % (ms, ms))
        spec.forbidden[ms] = 'defined in a sibling module, only imported here'
        head = 'from %s import helper_zz as _helper_zz\nfrom %s import SibK_zz as _SibK_zz\n' % (sibname, sibname)
        tail = ('\ndef helper_zz():\n    """\n    Example:\n        >>> print("%s")\n        %s\n    """\n    return _helper_zz()\n\n'
                'class SibK_zz(_SibK_zz):\n    """\n    Example:\n        >>> print("%s")\n        %s\n    """\n'
                '    def m(self):\n        """\n        Example:\n            >>> print("%s")\n            %s\n        """\n        return 3\n'
                % (mo1, mo1, mo2, mo2, mo3, mo3))
        spec.inventory['helper_zz'] = gm.DocSpec('google', [mo1])
        spec.inventory['SibK_zz'] = gm.DocSpec('google', [mo2])
        spec.inventory['SibK_zz.m'] = gm.DocSpec('google', [mo3])
        spec.features.add('wraps-aliased-imports-from-a-sibling')
        lines = src.split('\n')
        k = 1 if lines and lines[0].startswith('# -*- coding') else 0
        # (the imports go behind a module docstring, if there is one: find the first top-level def/class/if line)
        at = next((j for j, ln in enumerate(lines) if j >= k and ln.startswith(('def ', 'class ', 'async def ', 'if ', 'try:', 'with ', '@', 'for '))), len(lines))
        src = '\n'.join(lines[:at]) + ('\n' if at else '') + head + '\n'.join(lines[at:]) + tail
        spec.src = src
    with open(path, 'w', encoding=enc) as f:
        f.write(src)
    case = {'index': idx, 'case_seed': seed}
    kinds = set(f for f in spec.features if f.startswith(('method:', 'top:')))
    if len(spec.inventory) >= 3 and len(kinds) >= 2:
        ctx.nontrivial(spec.src)
    try:
        for style in STYLES:
            ctx.evaluation()
            res = {}
            for analysis in ('static', 'dynamic'):
                try:
                    exs = collect(path, style, analysis)
                except Exception as ex:
                    ctx.violation('collect-raised', 'parse_doctestables(analysis=%s) raised %r\n--- module ---\n%s' % (
                        analysis, ex, spec.src), case)
                    res = None
                    break
                res[analysis] = sorted((e.unique_callname, e.docsrc) for e in exs)
                ctx.event('collections_observed')
            if res is None:
                continue
            if res['static'] != res['dynamic']:
                s_ids = [k for k, _ in res['static']]
                d_ids = [k for k, _ in res['dynamic']]
                only_s = sorted(set(s_ids) - set(d_ids))
                only_d = sorted(set(d_ids) - set(s_ids))
                exp = sorted('%s:%d' % k for k in gm.expected_collection(spec, style))
                blame = 'static' if sorted(s_ids) != exp else ('dynamic' if sorted(d_ids) != exp else 'docsrc differs')
                ctx.violation('static-dynamic-differ', 'the two analyses disagree (style=%s): only static %r, only dynamic %r; '
                              'same identifiers but different source: %r; against the manifest the %s side is wrong'
                              '\n--- module ---\n%s' % (style, only_s, only_d,
                                                        [k for (k, a), (k2, b) in zip(res['static'], res['dynamic'])
                                                         if k == k2 and a != b][:5], blame, spec.src),
                              case, style=style, only_static=only_s, only_dynamic=only_d)
                continue
            ctx.cell('agree:' + style)
            ctx.event('identifier_sets_compared')
        for f in spec.features:
            ctx.cell('feature:' + f)
        if ctx.shard == 0:
            ctx.sample({'module_source': spec.src[:1200], 'identifiers_both_found': [k for k, _ in res['static']] if res else None},
                       limit=1)
    finally:
        os.unlink(path)
        if pkg_dir is not None:
            import shutil
            shutil.rmtree(pkg_dir, ignore_errors=True)
            for k in list(sys.modules):
                if k == modname or k.startswith(modname + '.'):
                    del sys.modules[k]
        if sib_path is not None:
            os.unlink(sib_path)
            sys.modules.pop(os.path.basename(sib_path)[:-3], None)
        for k in list(sys.modules):
            if k == modname:
                del sys.modules[k]


def run_shard(ctx):
    warnings.simplefilter('ignore')
    n = ctx.pick(400, 6000)
    for idx in ctx.my_indices(n):
        check_module(ctx, idx, ctx.case_seed(idx))


def replay(case, ctx):
    warnings.simplefilter('ignore')
    check_module(ctx, case['index'], case['case_seed'])


def classify(v):
    return None


LEVEL_TEXT = ("Exploration by differential monitoring: hundreds/thousands of generated importable modules x 3 styles are "
              "collected by both analyses; sorted (identifier, doctest source) lists must be equal.  The generator's manifest "
              "names the side that is wrong.")
LEVEL_NOTE = ("Trusted: nothing beyond the two collectors being independent implementations; the input class is cut to the "
              "property's own precondition (definitions executed once, no aliases).")
TECHNIQUE = "runtime monitor: differential oracle static vs dynamic collection on generated importable modules, generator manifest as tie-breaker"

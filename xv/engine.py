"""
Engine: tiers, seeds, sharding over worker processes, watchdogs, merging of
what the monitors observed, known-finding classification, evidence, replay.

A property module ``xv.props.cNN`` provides

    PROPERTY   = 'C07'
    LEVEL      = 'exploration' | 'fault_enumeration'
    RULE       = str   (how cases are generated, what makes one non-trivial)
    ASSUMPTIONS = [str]
    def required_cells(tier) -> iterable of cell names that must be observed
    def run_shard(ctx)        -> drives workload + monitors, reports into ctx
    def replay(case, ctx)     -> re-runs exactly one recorded case
    def classify(violation)   -> known-finding key (mechanism) or None

The engine never looks into xdoctest itself; workers do.
"""
import os
import sys
import json
import time
import shutil
import hashlib
import tempfile
import subprocess
import collections

VERIF = os.path.dirname(os.path.dirname(os.path.abspath(__file__)))
REPO = os.environ.get('XV_REPO', '/repo')
# where evidence/ and replays/ are written: /verif itself, or a scratch directory when a check is run against
# a mutated copy of the repository (tools/mutants.py, tools/seeded.py) so that committed evidence is never clobbered
OUT = os.environ.get('XV_OUT', VERIF)
PYTHON = os.environ.get('XV_PYTHON', '/venv/bin/python')
NPROC = int(os.environ.get('XV_NPROC', '16'))

MAX_VIOLATIONS_KEPT = 40


# --------------------------------------------------------------------------
# Context handed to property modules inside a worker
# --------------------------------------------------------------------------

class Ctx(object):
    """Recorder for one shard.  Everything a monitor observes goes through here."""

    def __init__(self, prop, tier, seed, shard=0, nshards=1, tmp=None, replaying=False):
        self.prop = prop
        self.tier = tier
        self.seed = seed
        self.shard = shard
        self.nshards = nshards
        self.tmp = tmp or tempfile.mkdtemp(prefix='xv_')
        self.replaying = replaying
        self.evaluations = 0
        self.hashes = set()
        self.extra_distinct = 0     # distinct by construction (enumerations)
        self.cells = collections.Counter()
        self.events = collections.Counter()
        self.samples = []
        self.violations = []
        self.n_violations = 0
        self.unavailable = set()
        self.notes = {}
        self.exhaustive = None
        self.t0 = time.time()
        # known findings are classified where they are observed, so that a frequent
        # known mechanism can never crowd a new violation out of the kept list
        self.known_keys = set(load_known_findings().get(prop, {}))
        self.known_seen = collections.Counter()
        self.classifier = None

    # -- budgets ---------------------------------------------------------
    def quick(self):
        return self.tier == 'quick'

    def pick(self, quick, thorough):
        return quick if self.tier == 'quick' else thorough

    def my_indices(self, total):
        """indices of a global enumeration 0..total-1 that belong to this shard"""
        return range(self.shard, total, self.nshards)

    def case_seed(self, index):
        """a seed for case number `index` (global numbering), stable per VERIF_SEED"""
        h = hashlib.sha1(('%s:%d:%d' % (self.prop, self.seed, index)).encode()).digest()
        return int.from_bytes(h[:8], 'big')

    # -- recording -------------------------------------------------------
    def evaluation(self, n=1):
        self.evaluations += n

    def nontrivial(self, key):
        if not isinstance(key, (bytes, str)):
            key = json.dumps(key, sort_keys=True, default=repr)
        if isinstance(key, str):
            key = key.encode('utf8', 'surrogatepass')
        self.hashes.add(hashlib.sha1(key).hexdigest()[:14])

    def nontrivial_count(self, n):
        """n further cases, distinct from each other and from every other shard by construction"""
        self.extra_distinct += n

    def cell(self, name, n=1):
        self.cells[str(name)] += n

    def event(self, name, n=1):
        self.events[str(name)] += n

    def sample(self, obj, limit=3):
        if len(self.samples) < limit:
            self.samples.append(obj)

    def violation(self, mechanism, message, case, **details):
        v = {'mechanism': mechanism, 'message': message, 'case': case}
        v.update(details)
        if self.classifier is not None and self.known_keys:
            try:
                key = self.classifier(v)
            except Exception:
                key = None
            if key is not None and key in self.known_keys:
                self.known_seen[key] += 1
                return
        self.n_violations += 1
        if len(self.violations) < MAX_VIOLATIONS_KEPT:
            self.violations.append(v)

    def to_json(self):
        return {
            'shard': self.shard,
            'evaluations': self.evaluations,
            'hashes': sorted(self.hashes),
            'extra_distinct': self.extra_distinct,
            'cells': dict(self.cells),
            'events': dict(self.events),
            'samples': self.samples,
            'violations': self.violations,
            'n_violations': self.n_violations,
            'unavailable': sorted(self.unavailable),
            'known_seen': dict(self.known_seen),
            'notes': self.notes,
            'exhaustive': self.exhaustive,
            'wall_s': time.time() - self.t0,
        }


def jsonable(obj, depth=0):
    """best-effort conversion of observations into JSON"""
    if depth > 6:
        return repr(obj)
    if isinstance(obj, (str, int, float, bool)) or obj is None:
        return obj
    if isinstance(obj, bytes):
        return obj.decode('utf8', 'replace')
    if isinstance(obj, dict):
        return {str(k): jsonable(v, depth + 1) for k, v in obj.items()}
    if isinstance(obj, (list, tuple, set, frozenset)):
        return [jsonable(v, depth + 1) for v in obj]
    return repr(obj)


# --------------------------------------------------------------------------
# Known findings
# --------------------------------------------------------------------------

def load_known_findings():
    """{property: {key: text}} from the committed file; never written at run time"""
    known = collections.defaultdict(dict)
    path = os.path.join(VERIF, 'KNOWN_FINDINGS.txt')
    if os.path.exists(path):
        for line in open(path):
            line = line.strip()
            if not line.startswith('known:'):
                continue
            fields = line[len('known:'):].split()
            prop = key = None
            rest = []
            for f in fields:
                if f.startswith('property=') and prop is None:
                    prop = f.split('=', 1)[1]
                elif f.startswith('key=') and key is None:
                    key = f.split('=', 1)[1]
                else:
                    rest.append(f)
            if prop and key:
                known[prop][key] = ' '.join(rest)
    return known


# --------------------------------------------------------------------------
# Running
# --------------------------------------------------------------------------

def worker_env(tmp):
    env = dict(os.environ)
    env['PYTHONPATH'] = os.pathsep.join([os.path.join(REPO, 'src'), VERIF])
    env['PYTHONHASHSEED'] = '0'
    env['PYTHONDONTWRITEBYTECODE'] = '1'
    env['PYTHONPYCACHEPREFIX'] = os.path.join(tmp, 'pycache')
    env['XDOCTEST_VERIF'] = '1'
    env['XV_TMP'] = tmp
    env['XV_REPO'] = REPO
    env['TMPDIR'] = tmp
    if os.environ.get('XV_COVER'):
        # tools/reach.py: every python process started below (workers, CLI and pytest subprocesses) records the
        # repository lines it reaches; a sitecustomize on the path starts the recorder
        site = os.path.join(tmp, 'reach_site')
        os.makedirs(site, exist_ok=True)
        with open(os.path.join(site, 'sitecustomize.py'), 'w') as f:
            f.write('import os, sys\n'
                    'sys.path.insert(0, %r)\n'
                    'from xv.worker import start_reach_monitor\n'
                    'start_reach_monitor(%r, os.environ["XV_COVER"], "p%%d" %% os.getpid())\n' % (
                        VERIF, os.path.realpath(os.path.join(REPO, 'src')) + os.sep))
        env['PYTHONPATH'] = os.pathsep.join([site, env['PYTHONPATH']])
        env['XV_COVER_SITE'] = '1'
    env.pop('PYTEST_ADDOPTS', None)
    env.pop('XDOCTEST_OPTIONS', None)
    env.pop('XDOCTEST_VERBOSE', None)
    env.pop('XDOCTEST_REPORT', None)
    env.pop('XDOCTEST_GLOBAL_EXEC', None)
    return env


def shard_timeout(mod, tier):
    t = getattr(mod, 'SHARD_TIMEOUT', None)
    if isinstance(t, dict):
        return t[tier]
    return {'quick': 900, 'thorough': 6 * 3600}[tier]


def import_prop(prop):
    import importlib
    return importlib.import_module('xv.props.' + prop.lower())


def run_check(prop, tier, seed, nshards=None, replay_path=None, out=sys.stdout):
    t0 = time.time()
    mod = import_prop(prop)
    nshards = nshards or getattr(mod, 'NSHARDS', {}).get(tier, NPROC)
    tmp = tempfile.mkdtemp(prefix='xv_%s_' % prop)
    os.makedirs(os.path.join(tmp, 'pycache'), exist_ok=True)
    env = worker_env(tmp)
    results = []
    lost = []
    try:
        procs = []
        for shard in range(nshards):
            outfile = os.path.join(tmp, 'shard%d.json' % shard)
            cmd = [PYTHON, '-X', 'faulthandler', '-m', 'xv.worker', prop, tier, str(seed),
                   str(shard), str(nshards), outfile]
            if replay_path:
                cmd.append(os.path.abspath(replay_path))
            log = open(os.path.join(tmp, 'shard%d.log' % shard), 'wb')
            p = subprocess.Popen(cmd, cwd=tmp, env=env, stdout=log, stderr=subprocess.STDOUT)
            procs.append((shard, p, outfile, log))
            if replay_path:
                break
        deadline = time.time() + shard_timeout(mod, tier)
        for shard, p, outfile, log in procs:
            remaining = max(1.0, deadline - time.time())
            try:
                p.wait(timeout=remaining)
            except subprocess.TimeoutExpired:
                p.kill()
                p.wait()
                lost.append((shard, 'watchdog: shard exceeded %ds wall clock' % shard_timeout(mod, tier)))
                continue
            finally:
                log.close()
            if os.path.exists(outfile):
                try:
                    results.append(json.load(open(outfile)))
                    continue
                except Exception as ex:  # truncated
                    lost.append((shard, 'unreadable shard result: %r' % (ex,)))
                    continue
            tail = open(os.path.join(tmp, 'shard%d.log' % shard), 'rb').read()[-3000:].decode('utf8', 'replace')
            lost.append((shard, 'worker exit %s without result:\n%s' % (p.returncode, tail)))
        return finish(mod, prop, tier, seed, results, lost, t0, out, replaying=bool(replay_path))
    finally:
        shutil.rmtree(tmp, ignore_errors=True)


def finish(mod, prop, tier, seed, results, lost, t0, out, replaying=False):
    evaluations = sum(r['evaluations'] for r in results)
    hashes = set()
    extra = 0
    cells = collections.Counter()
    events = collections.Counter()
    samples = []
    violations = []
    n_viol = 0
    unavailable = set()
    notes = {}
    exhaustive_flags = []
    for r in sorted(results, key=lambda r: r['shard']):
        hashes.update(r['hashes'])
        extra += r['extra_distinct']
        cells.update(r['cells'])
        events.update(r['events'])
        for s in r['samples']:
            if len(samples) < 3:
                samples.append(s)
        violations.extend(r['violations'])
        n_viol += r['n_violations']
        unavailable.update(r['unavailable'])
        for k, v in r.get('notes', {}).items():
            notes.setdefault(k, v)
        if r.get('exhaustive') is not None:
            exhaustive_flags.append(bool(r['exhaustive']))
    distinct = len(hashes) + extra

    # --- classify violations against the committed known findings
    known = load_known_findings().get(prop, {})
    known_seen = collections.Counter()
    for r in results:
        known_seen.update(r.get('known_seen', {}))
    real = []
    for v in violations:
        key = None
        try:
            key = mod.classify(v)
        except Exception:
            key = None
        if key is not None and key in known:
            known_seen[key] += 1
        else:
            real.append(v)
    # violations beyond the kept ones are unclassified: if every kept one was
    # known we still cannot vouch for the dropped ones -> they count as real
    dropped = n_viol - len(violations)

    required = list(mod.required_cells(tier)) if hasattr(mod, 'required_cells') else []
    missing = [c for c in required if cells.get(c, 0) == 0]

    verdict = 'held'
    reasons = []
    if real or dropped > 0:
        verdict = 'violated'
    elif replaying:
        verdict = 'held'
    elif lost:
        verdict = 'inconclusive'
        reasons.append('%d shard(s) lost: %s' % (len(lost), lost[0][1][:400]))
    elif evaluations == 0:
        verdict = 'inconclusive'
        reasons.append('deciding monitor made no evaluation')
    elif missing:
        verdict = 'inconclusive'
        reasons.append('required cells never observed: %s' % ', '.join(missing[:12]))
    elif distinct < 2:
        verdict = 'inconclusive'
        reasons.append('fewer than two distinct non-trivial cases')

    replay_paths = []
    if real:
        rdir = os.path.join(OUT, 'replays')
        os.makedirs(rdir, exist_ok=True)
        seen_mech = collections.Counter()
        for v in real:
            seen_mech[v['mechanism']] += 1
            if seen_mech[v['mechanism']] > 3:
                continue
            body = json.dumps(jsonable(v), sort_keys=True, indent=1)
            sha = hashlib.sha1(body.encode()).hexdigest()[:8]
            path = os.path.join(rdir, '%s-%s.json' % (prop, sha))
            with open(path, 'w') as f:
                json.dump({'property': prop, 'tier': tier, 'seed': seed,
                           'violation': jsonable(v)}, f, indent=1, sort_keys=True)
            replay_paths.append((path, v))

    wall = time.time() - t0
    if not replaying:
        write_evidence(mod, prop, tier, seed, evaluations, distinct, cells, events, samples,
                       required, missing, known_seen, unavailable, notes,
                       exhaustive_flags, len(real) + max(0, dropped), verdict, reasons, wall,
                       len(results), len(lost))

    # --- report
    print('[%s] tier=%s seed=%d shards=%d evaluations=%d distinct_nontrivial=%d wall=%.1fs' % (
        prop, tier, seed, len(results), evaluations, distinct, wall), file=out)
    if events:
        print('[%s] monitor events: %s' % (prop, ', '.join(
            '%s=%d' % kv for kv in sorted(events.items()))), file=out)
    if cells:
        items = sorted(cells.items())
        shown = ', '.join('%s=%d' % kv for kv in items[:24])
        more = '' if len(items) <= 24 else ' ... (%d cells)' % len(items)
        print('[%s] cells: %s%s' % (prop, shown, more), file=out)
    for key, n in sorted(known_seen.items()):
        print('KNOWN-FINDING: property=%s %s: %s (seen %d times this run)' % (
            prop, key, known[key], n), file=out)
    if verdict == 'violated':
        for path, v in replay_paths:
            print('VIOLATION property=%s replay=%s' % (prop, path), file=out)
            print('    mechanism=%s: %s' % (v['mechanism'], str(v['message'])[:600]), file=out)
        if not replay_paths:
            print('VIOLATION property=%s replay=%s' % (prop, 'none(dropped-overflow)'), file=out)
        print('[%s] %d violation(s) (%d kept)' % (prop, len(real) + max(0, dropped), len(real)), file=out)
        return 1
    if verdict == 'inconclusive':
        print('INCONCLUSIVE property=%s reason=%s' % (prop, '; '.join(reasons)), file=out)
        return 2
    print('[%s] HELD on everything observed' % prop, file=out)
    return 0


def write_evidence(mod, prop, tier, seed, evaluations, distinct, cells, events, samples,
                   required, missing, known_seen, unavailable, notes, exhaustive_flags,
                   n_violations, verdict, reasons, wall, nshards, nlost):
    coverage = {
        'evaluations': int(evaluations),
        'distinct_nontrivial': int(distinct),
        'rule': mod.RULE,
        'samples': jsonable(samples) if samples else [],
        'monitor_events': dict(sorted(events.items())),
        'cells': dict(sorted(cells.items())),
        'cells_required': sorted(required),
        'cells_missing': sorted(missing),
        'known_findings_seen': dict(known_seen),
        'monitors_unavailable': sorted(unavailable),
        'verdict': verdict,
        'verdict_reasons': reasons,
        'shards': nshards,
        'shards_lost': nlost,
    }
    if exhaustive_flags:
        coverage['exhaustive'] = all(exhaustive_flags)
    coverage.update(notes)
    ev = {
        'property_id': prop,
        'tier': tier,
        'seed': int(seed),
        'level': mod.LEVEL,
        'coverage': coverage,
        'assumptions': list(mod.ASSUMPTIONS),
        'wall_s': round(wall, 2),
        'violations': int(n_violations),
    }
    edir = os.path.join(OUT, 'evidence')
    os.makedirs(edir, exist_ok=True)
    path = os.path.join(edir, '%s.json' % prop)
    tmp = path + '.tmp'
    with open(tmp, 'w') as f:
        json.dump(ev, f, indent=1, sort_keys=True)
        f.write('\n')
    os.replace(tmp, path)


def main(argv=None):
    import argparse
    ap = argparse.ArgumentParser(prog='check')
    ap.add_argument('property')
    ap.add_argument('--tier', default=os.environ.get('VERIF_TIER', 'quick'), choices=['quick', 'thorough'])
    ap.add_argument('--seed', type=int, default=int(os.environ.get('VERIF_SEED', '0') or 0))
    ap.add_argument('--shards', type=int, default=None)
    ap.add_argument('--replay', default=None)
    ns = ap.parse_args(argv)
    prop = ns.property.upper()
    return run_check(prop, ns.tier, ns.seed, nshards=ns.shards, replay_path=ns.replay)


if __name__ == '__main__':
    sys.exit(main())

"""MANIFEST.setup_cmd: nothing is compiled; verify the interpreter, the repository import and the layout."""
import os
import sys


def main():
    here = os.path.dirname(os.path.dirname(os.path.abspath(__file__)))
    repo = os.environ.get('XV_REPO', '/repo')
    sys.path.insert(0, os.path.join(repo, 'src'))
    import xdoctest
    assert os.path.realpath(xdoctest.__file__).startswith(os.path.realpath(os.path.join(repo, 'src'))), xdoctest.__file__
    assert sys.version_info[:2] >= (3, 8)
    os.makedirs(os.path.join(here, 'evidence'), exist_ok=True)
    n = len([f for f in os.listdir(os.path.join(here, 'xv', 'props')) if f.startswith('c') and f.endswith('.py')])
    print('xv ready: python %s, xdoctest %s from %s, %d property modules' % (
        sys.version.split()[0], xdoctest.__version__, xdoctest.__file__, n))


if __name__ == '__main__':
    main()

"""
pytest plugin that attaches the ride-along contracts (xv.ridealong) to the repository's own tests:

    XV_RA_OUT=out.json python -m pytest -p xv.ridealong_plugin tests/test_parser.py ...

Every DoctestParser.parse, checker.check_output and RuntimeState.update call made by the test-suite is
then observed by the same monitors as the generated workloads.  Results are written as JSON.
"""
import os
import json

from xv import ridealong

ridealong.install(('parse', 'checker', 'runstate'))


def pytest_sessionfinish(session, exitstatus):
    out = os.environ.get('XV_RA_OUT')
    if out:
        with open(out, 'w') as f:
            json.dump({'counts': dict(ridealong.COUNTS), 'violations': ridealong.VIOL[:50],
                       'n_violations': ridealong.COUNTS.get('violations', 0),
                       'unavailable': sorted(ridealong.UNAVAILABLE), 'exitstatus': int(exitstatus)}, f, default=repr)

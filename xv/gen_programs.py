"""
Seeded grammar-based generator of doctest programs and docstring layouts
(C01 C02 C03 C04 C18 C19 C20).  Pure stdlib, never imports xdoctest.

A program is a list of Stmt.  Every statement carries a unique id which it appends
to the event log T when (and each time) it executes, so a recorded history says
unambiguously which statements ran, how often and in which order.
"""
import io
import ast
import asyncio
import contextlib

PRELUDE = '''
import asyncio as _asyncio, contextlib as _contextlib
def emit(i):
    T.append(i); print("e%d" % i)
def quiet(i):
    T.append(i)
async def aemit(i):
    await _asyncio.sleep(0); T.append(('a', i)); print("a%d" % i)
def deco(i):
    def _d(f):
        T.append(('deco', i)); return f
    return _d
@_contextlib.contextmanager
def ctx(i):
    T.append(('enter', i)); yield; T.append(('exit', i))
class actx(object):
    def __init__(self, i): self.i = i
    async def __aenter__(self):
        await _asyncio.sleep(0); T.append(('aenter', self.i)); return self
    async def __aexit__(self, *a):
        T.append(('aexit', self.i)); return False
class V(object):
    """value with distinguishable repr / str"""
    def __init__(self, i): self.i = i
    def __repr__(self): return "R%d" % self.i
    def __str__(self): return "S%d" % self.i
    def __eq__(self, o): return isinstance(o, V) and o.i == self.i
    def __hash__(self): return hash(self.i)
def val(i):
    T.append(i); return V(i)
def pv(i):
    T.append(i); print("o%d" % i); return V(i)
async def aval(i):
    await _asyncio.sleep(0); T.append(i); return V(i)
async def apv(i):
    await _asyncio.sleep(0); T.append(i); print("o%d" % i); return V(i)
async def acoro(i):
    T.append(('ran', i)); print("ran%d" % i); return V(i)
async def agen(i):
    T.append(i)
    for _k in range(2):
        yield V(i * 10 + _k)
_q_zz = quiet
_K_ZZ = 1000
'''


def make_namespace(T=None, cls=dict):
    ns = cls()
    ns['T'] = [] if T is None else T
    exec(compile(PRELUDE, '<xv-prelude>', 'exec'), ns)
    return ns


PRELUDE_NAMES = frozenset(make_namespace().keys())


class Stmt(object):
    __slots__ = ('lines', 'kind', 'sid', 'str_body', 'comment_only', 'is_expr', 'value_kind', 'directive',
                 'ps1_lines', 'forced_want', 'expected_exc')

    def __init__(self, lines, kind, sid, str_body=(), comment_only=False, is_expr=False, value_kind=None,
                 ps1_lines=()):
        self.lines = list(lines)
        self.kind = kind
        self.sid = sid
        self.str_body = frozenset(str_body)     # line indices that lie inside a triple quoted string
        self.comment_only = comment_only
        self.is_expr = is_expr                  # the last top level node is an expression statement
        self.value_kind = value_kind            # None | 'none' | 'value' | 'print+value' | 'print'
        self.directive = None
        self.ps1_lines = frozenset(ps1_lines)   # line indices (besides 0) that start a new top level statement
        self.forced_want = None                 # want lines that must follow (the traceback block of a raising statement)
        self.expected_exc = None                # name of the exception type the statement raises on purpose

    def text(self):
        return '\n'.join(self.lines)

    def to_json(self):
        return {'kind': self.kind, 'sid': self.sid, 'lines': self.lines}


class ProgramGen(object):
    """statement grammar; `flavour` selects which statement kinds are drawn"""

    C01_KINDS = ['assign', 'emit', 'emit', 'print', 'printsemi', 'multiline', 'for', 'if', 'def', 'defblank',
                 'try', 'deco', 'deco2', 'mlstr', 'mlstr_prompt', 'semi', 'comment', 'with', 'while', 'class',
                 'await', 'asyncdef', 'asyncwith', 'bracket_comment', 'backslash', 'strhash', 'call', 'use',
                 'import', 'augassign', 'lambda', 'dictlit', 'nestedfor', 'callml', 'emit_comment', 'tryfinally',
                 'globaldef', 'noeol', 'fstring', 'walrus', 'match', 'delvar', 'asyncfor', 'asynccomp', 'decoasync',
                 'docstr_in_def', 'deepnest', 'unicode', 'starunpack', 'yieldgen', 'condexpr', 'withas', 'stdoutwrite',
                 'elifchain', 'commentbody', 'parenwith', 'tripledq', 'mlstr_trailing', 'raises_expected',
                 'raises_compound', 'markercomment', 'bscomment', 'padded', 'brblank', 'mlstr_wsline',
                 'mlstr_hashclose', 'mlstr_directive_text', 'usepriv', 'sep_out', 'sep_literal',
                 'deco_comment', 'else_comment', 'ml_semi', 'annot_effect']

    def __init__(self, rng, kinds=None, allow_async=True):
        self.rng = rng
        self.n = 0
        self.kinds = list(kinds or self.C01_KINDS)
        if not allow_async:
            self.kinds = [k for k in self.kinds if k not in ('await', 'asyncdef', 'asyncwith')]
        self.defined_funcs = []     # names of plain functions f(a) defined so far
        self.defined_afuncs = []
        self.defined_vars = []

    def nid(self):
        self.n += 1
        return self.n

    def program(self, lo=1, hi=10):
        return [self.stmt() for _ in range(self.rng.randint(lo, hi))]

    def stmt(self):
        r = self.rng
        k = r.choice(self.kinds)
        i = self.nid()
        S = Stmt
        if k == 'call' and not (self.defined_funcs or self.defined_afuncs):
            k = 'emit'
        if k in ('use', 'augassign') and not self.defined_vars:
            k = 'assign'
        if k == 'assign':
            self.defined_vars.append('v%d' % i)
            return S(['v%d = %d' % (i, i)], k, i)
        if k == 'emit':
            return S(['emit(%d)' % i], k, i, is_expr=True)
        if k == 'emit_comment':
            return S(['emit(%d)  # trailing comment %d' % (i, i)], k, i, is_expr=True)
        if k == 'print':
            return S(['print("p%d", T.append(%d))' % (i, i)], k, i, is_expr=True)
        if k == 'printsemi':
            return S(['print("p%d"); T.append(%d)' % (i, i)], k, i, is_expr=True)
        if k == 'multiline':
            self.defined_vars.append('v%d' % i)
            return S(['v%d = [' % i, '    %d,' % i, '    emit(%d),' % i, ']'], k, i)
        if k == 'callml':
            return S(['emit(', '    %d' % i, ')'], k, i, is_expr=True)
        if k == 'dictlit':
            self.defined_vars.append('v%d' % i)
            return S(['v%d = {' % i, "    'k': %d," % i, "    'e': quiet(%d)}" % i], k, i)
        if k == 'for':
            return S(['for k%d in range(2):' % i, '    emit(%d)' % i], k, i)
        if k == 'nestedfor':
            return S(['for k%d in range(2):' % i, '    for j%d in range(2):' % i, '        quiet(%d)' % i,
                      '    emit(%d)' % i], k, i)
        if k == 'while':
            return S(['w%d = 2' % i, 'while w%d:' % i, '    w%d -= 1' % i, '    emit(%d)' % i], k, i, ps1_lines=(1,))
        if k == 'if':
            return S(['if %d %% 2:' % i, '    emit(%d)' % i, 'else:', '    emit(-%d)' % i], k, i)
        if k == 'def':
            self.defined_funcs.append('f%d' % i)
            return S(['def f%d(a):' % i, '    emit(%d)' % i, '    return a'], k, i)
        if k == 'defblank':
            self.defined_funcs.append('f%d' % i)
            return S(['def f%d(a):' % i, '    emit(%d)' % i, '', '    return a'], k, i)
        if k == 'globaldef':
            self.defined_funcs.append('f%d' % i)
            return S(['w%d = 0' % i, 'def f%d(a):' % i, '    global w%d' % i, '    w%d += 1' % i, '    quiet(%d)' % i,
                      '    return a'], k, i, ps1_lines=(1,))
        if k == 'lambda':
            self.defined_funcs.append('f%d' % i)
            return S(['f%d = lambda a: (quiet(%d), a)[1]' % (i, i)], k, i)
        if k == 'try':
            self.defined_vars.append('v%d' % i)
            return S(['try:', '    emit(%d)' % i, '    raise KeyError(%d)' % i, 'except KeyError:',
                      '    emit(-%d)' % i, 'finally:', '    v%d = %d' % (i, i)], k, i)
        if k == 'tryfinally':
            return S(['try:', '    quiet(%d)' % i, 'finally:', '    emit(%d)' % i], k, i)
        if k == 'deco':
            return S(['@deco(%d)' % i, 'def g%d():' % i, '    return %d' % i], k, i)
        if k == 'deco2':
            return S(['@deco(%d)' % i, '@deco(-%d)' % i, 'class G%d(object):' % i, '    x = quiet(%d)' % i], k, i)
        if k == 'mlstr':
            self.defined_vars.append('s%d' % i)
            return S(["s%d = '''" % i, '  w%d x' % i, '    y%d' % i, "'''"], k, i, str_body=(1, 2, 3))
        if k == 'mlstr_prompt':
            self.defined_vars.append('s%d' % i)
            return S(['s%d = """' % i, 'z%d # not a comment' % i, 'q%d; w' % i, '""".strip()'], k, i, str_body=(1, 2, 3))
        if k == 'semi':
            self.defined_vars.append('v%d' % i)
            return S(['v%d = %d; emit(%d)' % (i, i, i)], k, i, is_expr=True)
        if k == 'comment':
            return S(['# comment %d' % i], k, i, comment_only=True)
        if k == 'with':
            return S(['with ctx(%d):' % i, '    emit(%d)' % i], k, i)
        if k == 'class':
            return S(['class C%d:' % i, '    emit(%d)' % i, '    def m(self):', '        return %d' % i], k, i)
        if k == 'await':
            return S(['await aemit(%d)' % i], k, i, is_expr=True)
        if k == 'asyncdef':
            self.defined_afuncs.append('af%d' % i)
            return S(['async def af%d():' % i, '    await aemit(%d)' % i], k, i)
        if k == 'asyncwith':
            return S(['async with actx(%d):' % i, '    await aemit(%d)' % i], k, i)
        if k == 'bracket_comment':
            self.defined_vars.append('v%d' % i)
            return S(['v%d = (' % i, '    # inner comment %d' % i, '    %d,' % i, ')'], k, i)
        if k == 'backslash':
            self.defined_vars.append('v%d' % i)
            return S(['v%d = 1 + \\' % i, '    %d' % i], k, i)
        if k == 'strhash':
            self.defined_vars.append('s%d' % i)
            return S(['s%d = "# no comment >>> ... %d"; quiet(%d)' % (i, i, i)], k, i, is_expr=True)
        if k == 'call':
            if self.defined_afuncs and (not self.defined_funcs or r.random() < 0.4):
                return S(['await %s()' % r.choice(self.defined_afuncs)], k, i, is_expr=True)
            return S(['%s(None)' % r.choice(self.defined_funcs)], k, i, is_expr=True)
        if k == 'use':
            src = r.choice(self.defined_vars)
            self.defined_vars.append('u%d' % i)
            return S(['u%d = (%s, quiet(%d))' % (i, src, i)], k, i)
        if k == 'augassign':
            cands = [v for v in self.defined_vars if v.startswith('v')]
            if not cands:
                self.defined_vars.append('v%d' % i)
                return S(['v%d = %d' % (i, i)], 'assign', i)
            v = r.choice(cands)
            return S(['%s = [%s]; quiet(%d)' % (v, v, i)], k, i, is_expr=True)
        if k == 'noeol':
            # output without a trailing newline: the next output continues the same line
            return S(['print("n%d", end=""); T.append(%d)' % (i, i)], k, i, is_expr=True)
        if k == 'stdoutwrite':
            return S(['import sys as _s%d' % i, 'quiet(_s%d.stdout.write("w%d\\n"))' % (i, i)], k, i, is_expr=True,
                     ps1_lines=(1,))
        if k == 'fstring':
            self.defined_vars.append('s%d' % i)
            return S(['s%d = f"{%d!r:>4} # {{brace}} {\'q\'}"; quiet(%d)' % (i, i, i)], k, i, is_expr=True)
        if k == 'walrus':
            self.defined_vars.append('v%d' % i)
            return S(['if (v%d := %d) > 0:' % (i, i), '    emit(%d)' % i], k, i)
        if k == 'match':
            return S(['match %d:' % i, '    case 0:', '        emit(-%d)' % i, '    case _:', '        emit(%d)' % i], k, i)
        if k == 'delvar':
            return S(['d%d = %d' % (i, i), 'del d%d' % i, 'quiet(%d)' % i], k, i, is_expr=True, ps1_lines=(1, 2))
        if k == 'asyncfor':
            return S(['async def ag%d():' % i, '    for j in range(2):', '        yield j', 'async for j%d in ag%d():' % (i, i),
                      '    await aemit(%d)' % i], k, i, ps1_lines=(3,))
        if k == 'asynccomp':
            self.defined_vars.append('v%d' % i)
            return S(['async def ah%d():' % i, '    yield %d' % i, 'v%d = [x async for x in ah%d()]; quiet(%d)' % (i, i, i)],
                     k, i, is_expr=True, ps1_lines=(2,))
        if k == 'decoasync':
            self.defined_afuncs.append('af%d' % i)
            return S(['@deco(%d)' % i, 'async def af%d():' % i, '    await aemit(%d)' % i], k, i)
        if k == 'docstr_in_def':
            self.defined_funcs.append('f%d' % i)
            return S(['def f%d(a):' % i, "    '''doc with a prompt", '    >>> not_run(%d)' % i, '    and dots ...', "    '''",
                      '    quiet(%d)' % i, '    return a'], k, i, str_body=(2, 3, 4))
        if k == 'deepnest':
            return S(['for a%d in range(2):' % i, '    if a%d:' % i, '        # comment in body %d' % i,
                      '        for b%d in range(1):' % i, '', '            emit(%d)' % i, '    else:', '        quiet(%d)' % i],
                     k, i)
        if k == 'unicode':
            self.defined_vars.append('s%d' % i)
            return S(['s%d = "\u00e9\u4e2d %d"; print("\u00fc%d"); T.append(%d)' % (i, i, i, i)], k, i, is_expr=True)
        if k == 'starunpack':
            self.defined_vars.append('v%d' % i)
            return S(['v%d, *w%d = [%d, quiet(%d), 3]' % (i, i, i, i)], k, i)
        if k == 'yieldgen':
            self.defined_vars.append('v%d' % i)
            return S(['def gen%d():' % i, '    yield %d' % i, '    emit(%d)' % i, 'v%d = list(gen%d())' % (i, i)], k, i,
                     ps1_lines=(3,))
        if k == 'condexpr':
            return S(['emit(%d) if %d else emit(-%d)' % (i, i, i)], k, i, is_expr=True)
        if k == 'withas':
            self.defined_vars.append('v%d' % i)
            return S(['with ctx(%d) as c%d, ctx(-%d):' % (i, i, i), '    v%d = c%d' % (i, i)], k, i)
        if k == 'parenwith':
            return S(['with (', '    ctx(%d),' % i, '    ctx(-%d),' % i, '):', '    emit(%d)' % i], k, i)
        if k == 'elifchain':
            return S(['if %d < 0:' % i, '    emit(-%d)' % i, 'elif %d == 0:' % i, '    emit(0)', 'else:', '    emit(%d)' % i], k, i)
        if k == 'commentbody':
            return S(['def cb%d():' % i, '    # only a comment and a docstring-less body', '    return quiet(%d)' % i,
                      'cb%d()' % i], k, i, is_expr=True, ps1_lines=(3,))
        if k == 'tripledq':
            self.defined_vars.append('s%d' % i)
            return S(["s%d = '''it's \"q\" %d" % (i, i), "'''; quiet(%d)" % i], k, i, str_body=(1,), is_expr=True)
        if k in ('raises_expected', 'raises_compound'):
            # prints, then raises; the traceback block under it makes the exception an expected one and the
            # doctest carries on
            if k == 'raises_expected':
                st = S(['emit(%d) or {}[%d]' % (i, i)], k, i, is_expr=True)
            else:
                st = S(['for k%d in range(1):' % i, '    emit(%d)' % i, '    raise KeyError(%d)' % i], k, i)
            st.forced_want = ['Traceback (most recent call last):', 'KeyError: %d' % i]
            st.expected_exc = 'KeyError'
            return st
        if k == 'padded':
            # output that ends in blanks (a padded table cell): the want line carries them too
            return S(['print("t%d   ") or quiet(%d)' % (i, i)], k, i, is_expr=True)
        if k == 'bscomment':
            # a complete statement whose trailing comment ends in a backslash (no line joining)
            return S(['emit(%d)  # i.e. C:\\data\\' % i], k, i, is_expr=True)
        if k == 'markercomment':
            # a comment that starts like one of the force-disable markers, but not on the first line of the doctest
            word = r.choice(['failing', 'FAILING', 'script', 'SCRIPT', 'disable', 'unstable', 'slow_doctest'])
            return S(['quiet(%d)' % i, '# %s inputs are handled below (%d)' % (word, i), 'quiet(-%d)' % i], k, i,
                     is_expr=True, ps1_lines=(1, 2))
        if k == 'mlstr_trailing':
            # significant trailing blanks inside a string literal
            self.defined_vars.append('s%d' % i)
            return S(["s%d = '''alpha   " % i, "beta %d  " % i, "'''; quiet(%d)" % i], k, i, str_body=(1, 2), is_expr=True)
        if k == 'sep_out':
            # printed text that holds characters str.splitlines() takes for line ends (form feed, NEL, U+2028, FS): in
            # the want they are ordinary characters of their line (finding F37)
            sep = r.choice(['\\x0c', '\\x85', '\\u2028', '\\x1c', '\\x0b'])
            return S(['print("s%d%sx" + str(quiet(%d) or ""))' % (i, sep, i)], k, i, is_expr=True)
        if k == 'sep_literal':
            # the same characters, raw, inside a string literal of the source
            sep = r.choice(['\x0c', '\x85', '\u2028', '\x1c'])
            self.defined_vars.append('s%d' % i)
            return S(["s%d = 'a%sb'; quiet(%d + len(s%d))" % (i, sep, i, i)], k, i, is_expr=True)
        if k == 'deco_comment':
            # a comment line between a decorator and its def (finding F38)
            self.defined_funcs.append('f%d' % i)
            return S(['@deco(%d)' % i, '# the decorated function follows', 'def f%d(a):' % i, '    return a'], k, i)
        if k == 'else_comment':
            # a comment at the column of the if, in front of its else
            return S(['if %d < 0:' % i, '    emit(-%d)' % i, '# otherwise', 'else:', '    emit(%d)' % i], k, i)
        if k == 'ml_semi':
            # a second statement behind a semicolon on the closing line of a multi-line statement (finding F39)
            self.defined_vars.append('v%d' % i)
            return S(['v%d = [%d,' % (i, i), '    quiet(%d)]; emit(%d)' % (i, i)], k, i, is_expr=True)
        if k == 'annot_effect':
            # an annotation whose evaluation is observable: it runs when the def statement runs (unless the module under
            # test really has 'from __future__ import annotations')
            self.defined_funcs.append('f%d' % i)
            return S(['def f%d(a: quiet(%d) = None):' % (i, i), '    return a'], k, i)
        if k == 'usepriv':
            # names with a leading underscore that the doctest does not bind itself
            return S(['_q_zz(_K_ZZ + %d)' % i], k, i, is_expr=True)
        if k == 'brblank':
            # an empty line inside brackets (written '...', or '...   ' with blanks only: finding F25)
            self.defined_vars.append('v%d' % i)
            return S(['v%d = [' % i, '', '    emit(%d),' % i, '', '    %d]' % i], k, i)
        if k == 'mlstr_hashclose':
            # the line that closes a string literal looks like a comment when read alone (finding F26)
            self.defined_vars.append('s%d' % i)
            return S(["s%d = '''echo %d" % (i, i), "# done'''; quiet(%d)" % i], k, i, is_expr=True)
        if k == 'mlstr_directive_text':
            # lines of a string literal that read like directive comments: they are text, the statement runs
            self.defined_vars.append('s%d' % i)
            return S(["s%d = '''usage %d:" % (i, i), r.choice(['# doctest: +SKIP', '# xdoctest: +SKIP', '#xdoc: +REQUIRES(module:xv_nx_mod_zz)']),
                      "end'''; quiet(%d)" % i], k, i, is_expr=True)
        if k == 'mlstr_wsline':
            # a line of blanks only inside a string literal: the blanks are part of the value
            self.defined_vars.append('s%d' % i)
            return S(["s%d = '''alpha" % i, "  ", "beta %d'''; quiet(%d)" % (i, i)], k, i, str_body=(1, 2), is_expr=True)
        if k == 'import':
            first = r.choice(['import os.path as m%d' % i, 'from os import path as m%d' % i])
            return S([first, 'quiet(%d)' % i], k, i, is_expr=True, ps1_lines=(1,))
        raise KeyError(k)


# --------------------------------------------------------------------------
# reference execution: the de-prompted program as an ordinary Python program
# --------------------------------------------------------------------------

class RefResult(object):
    def __init__(self):
        self.outs = []          # stdout per statement
        self.values = []        # value of a final expression statement (or NOVALUE)
        self.traces = []        # len(T) after each statement
        self.T = None
        self.ns = None
        self.error = None       # (index, exception) if a statement raised


NOVALUE = object()


def run_reference(stmts, repl_values=False, stop_on_error=True):
    """execute statement by statement in one dict with plain compile/exec"""
    res = RefResult()
    T = []
    ns = make_namespace(T)
    for idx, st in enumerate(stmts):
        text = st.text() + '\n'
        buf = io.StringIO()
        value = NOVALUE
        try:
            with contextlib.redirect_stdout(buf):
                if st.comment_only:
                    pass
                elif repl_values and st.is_expr and _is_single_expr(text):
                    code = compile(text.strip(), '<ref>', 'eval', flags=ast.PyCF_ALLOW_TOP_LEVEL_AWAIT)
                    if code.co_flags & 0x80:
                        value = asyncio.run(eval(code, ns))
                    else:
                        value = eval(code, ns)
                else:
                    code = compile(text, '<ref>', 'exec', flags=ast.PyCF_ALLOW_TOP_LEVEL_AWAIT)
                    if code.co_flags & 0x80:
                        asyncio.run(eval(code, ns))
                    else:
                        exec(code, ns)
        except Exception as ex:
            if st.expected_exc is not None and type(ex).__name__ == st.expected_exc:
                # raised on purpose, the doctest expects it: the program carries on
                res.outs.append(buf.getvalue())
                res.values.append(NOVALUE)
                res.traces.append(len(T))
                continue
            res.error = (idx, ex)
            res.outs.append(buf.getvalue())
            res.values.append(NOVALUE)
            res.traces.append(len(T))
            if stop_on_error:
                break
            continue
        res.outs.append(buf.getvalue())
        res.values.append(value)
        res.traces.append(len(T))
    res.T = list(T)
    res.ns = ns
    return res


def _is_single_expr(text):
    try:
        tree = ast.parse(text)
    except SyntaxError:
        return False
    return len(tree.body) == 1 and isinstance(tree.body[0], ast.Expr)


# --------------------------------------------------------------------------
# layouts
# --------------------------------------------------------------------------

WS_ONLY = '\ufffe<blanks only>'       # placeholder for a separator line of blanks (deeper than the indentation)


class Layout(object):
    """how a program is written down as a docstring"""

    def __init__(self, rng, base_indent=0, tabs=False, wrapper='freeform', want_prob=0.5, prose_prob=0.15,
                 blank_prob=0.15, styles=('all_ps1', 'ps2', 'ps2'), reindent_prob=0.0):
        self.rng = rng
        self.base_indent = base_indent
        self.tabs = tabs
        self.wrapper = wrapper
        self.want_prob = want_prob
        self.prose_prob = prose_prob
        self.blank_prob = blank_prob
        self.styles = styles
        # probability that the example following a want / a blank line / prose is written at another
        # indentation than the one before it (every example carries its own indentation)
        self.reindent_prob = reindent_prob
        # blanks written after the prompt of an empty line inside a statement (0: the bare prompt)
        self.ws_cont = 0
        self.used_ws_cont = False

    @staticmethod
    def random(rng):
        base = rng.choice([0, 4, 8])
        tabs = (base > 0 and rng.random() < 0.35)
        if tabs and base == 8 and rng.random() < 0.5:
            tabs = 'mixed'      # some lines indented by one tab, the others by eight blanks: the same columns
        lay = Layout(rng, base_indent=base, tabs=tabs,
                     wrapper=rng.choice(['freeform', 'freeform', 'google']),
                     want_prob=rng.choice([0.2, 0.5, 0.8]),
                     prose_prob=rng.choice([0.0, 0.15, 0.3]),
                     blank_prob=rng.choice([0.0, 0.15, 0.3]),
                     reindent_prob=rng.choice([0.0, 0.0, 0.3, 0.7]))
        lay.ws_cont = rng.choice([0, 0, 1, 3])
        return lay

    def describe(self):
        return {'base_indent': self.base_indent, 'tabs': self.tabs, 'wrapper': self.wrapper}

    def stmt_lines(self, st, style=None):
        """prompt-prefixed lines of one statement, list of (text, label)"""
        rng = self.rng
        style = style or rng.choice(self.styles)
        if st.kind in ('tripledq', 'mlstr_trailing', 'mlstr_wsline', 'mlstr_hashclose', 'mlstr_directive_text'):
            style = 'ps2'
        out = []
        for li, line in enumerate(st.lines):
            if li == 0 or li in st.ps1_lines:
                pre = '>>> '
            else:
                pre = '>>> ' if style == 'all_ps1' else '... '
            if line == '':
                if self.ws_cont and li not in st.str_body:
                    out.append(pre + ' ' * self.ws_cont)     # a continuation line of blanks only
                    self.used_ws_cont = True
                else:
                    out.append(pre.rstrip())
                continue
            if (li in st.str_body and li > 0 and line.strip() and rng.random() < 0.5
                    and not line.lstrip().startswith(("'''", '"""'))):
                out.append(line)            # unprefixed line inside a multi-line string
                self.used_unprefixed = True
            else:
                out.append(pre + line)
        return out

    def render(self, stmts, outs, wants=None):
        """
        stmts: [Stmt]; outs: stdout per statement (reference run);
        wants: None -> place exact 'everything since the previous want' wants at random;
               or a dict {stmt index: [want lines]} placed verbatim.
        Returns (docstring text, info) where info has line labels and want placements.
        """
        rng = self.rng
        lines = []
        labels = []
        placed = {}
        pending = ''
        self.used_unprefixed = False
        self.used_ws_cont = False
        features = set()
        shift = rng.choice([0, 0, 2, 4]) if self.reindent_prob else 0
        for si, st in enumerate(stmts):
            sl = self.stmt_lines(st)
            pad = ' ' * shift
            for text in sl:
                lines.append(pad + text if text else text)
                labels.append(('src', si))
            # a '>>> ' continuation line followed, inside the same statement, by a line without it
            seen_ps1_cont = False
            mixed = False
            for li, text in enumerate(sl):
                if li == 0 or li in st.ps1_lines:
                    seen_ps1_cont = False
                    continue
                if text.startswith('>>>'):
                    seen_ps1_cont = True
                elif seen_ps1_cont:
                    mixed = True
            pending += outs[si] if si < len(outs) else ''
            wl = None
            if wants is None:
                if pending and rng.random() < self.want_prob:
                    cand = pending.rstrip('\n').split('\n')
                    if want_is_layoutable(cand):
                        wl = cand
            elif si in wants:
                wl = wants[si]
            if st.forced_want is not None:
                # whatever was printed before (by this statement or earlier ones) is left out of later wants: a later
                # want then holds only text written after the traceback block, which is right under every reading of
                # "since the previous want"
                wl = list(st.forced_want)
                features.add('expected-exception')
            if wl is not None:
                for w in wl:
                    lines.append(pad + w)
                    labels.append(('want', si))
                placed[si] = wl
                pending = ''
                if mixed:
                    features.add('mixed-continuation-then-want')
            sep = rng.random()
            if si == len(stmts) - 1:
                pass
            elif sep < self.prose_prob:
                lines.extend(['', 'prose line %d.' % si, ''])
                labels.extend([('text', si)] * 3)
            elif sep < self.prose_prob + self.blank_prob:
                # an empty line, or one that holds blanks only (what an auto-indenting editor leaves behind)
                if rng.random() < 0.3:
                    lines.append(WS_ONLY)
                    features.add('whitespace-only-separator')
                else:
                    lines.append('')
                labels.append(('text', si))
                if rng.random() < 0.2:
                    # two empty lines in a row (inside a google block the examples behind them still belong to it)
                    lines.append('')
                    labels.append(('text', si))
                    features.add('two-empty-lines-separator')
            separated = si < len(stmts) - 1 and sep < self.prose_prob + self.blank_prob
            if self.reindent_prob and (wl is not None or separated) and rng.random() < self.reindent_prob:
                # the next example is written at another indentation: directly under the want
                # (no blank line between) or after the separator
                new = rng.choice([x for x in (0, 2, 4, 6) if x != shift])
                if si < len(stmts) - 1:
                    features.add('reindent-after-want:%s' % ('less' if new < shift else 'more')
                                 if not separated else 'reindent-after-separator')
                shift = new
        ind = ' ' * self.base_indent
        body = [(ind + '   ') if ln == WS_ONLY else (ind + ln if ln else ln) for ln in lines]
        head = []
        if self.wrapper == 'google':
            body = ['    ' + ln if ln else ln for ln in body]
            head = [ind + 'Summary line.', '', ind + 'Example:']
            style = 'google'
        else:
            style = 'freeform'
        text = '\n'.join(head + body)
        if self.tabs and self.base_indent:
            # the base indentation is written with tabs (one per 4 columns; expandtabs turns each
            # into 8 columns, uniformly for every line, so relative indentation is unchanged)
            if self.tabs == 'mixed':
                # one tab = eight columns = the eight blanks of the other lines
                text = '\n'.join(_tabify(ln, self.base_indent, per=8) if rng.random() < 0.5 else ln
                                 for ln in text.split('\n'))
                features.add('mixed-tabs-and-blanks')
            else:
                text = '\n'.join(_tabify(ln, self.base_indent) for ln in text.split('\n'))
        if self.used_ws_cont:
            features.add('blanks-only-continuation-line')
        info = {'labels': labels, 'wants': placed, 'style': style, 'head': len(head),
                'unmatched_tail': pending, 'unprefixed': self.used_unprefixed, 'features': sorted(features)}
        return text, info


def _tabify(line, base, per=4):
    if line.startswith(' ' * base):
        return '\t' * (base // per) + line[base:]
    return line


def want_is_layoutable(wlines):
    """a want that the documented syntax can express directly under the source"""
    if not wlines:
        return False
    for w in wlines:
        if not w.strip():
            return False
    first = wlines[0].lstrip()
    # (three dots directly followed by text are text: only '...' alone or followed by a blank is a prompt)
    if first.startswith('>>>') or first == '...' or first.startswith('... '):
        return False
    for w in wlines:
        s = w.strip()
        if s == '...' or s.startswith('>>> ') or s == '>>>':
            return False
    return True


def deprompt(stmts):
    return [ln for st in stmts for ln in st.lines]

"""
Seeded generators of module sources, docstring placements and package trees
(C07 C08 C09 C10 C11 C15 C16 C17 C19).  Pure stdlib, never imports xdoctest.
"""
import os
import re

MARK_RE = re.compile(r'U\d+x\d+_\d+')
GOOGLE_TAGS = ['Example:', 'Doctest:', 'Examples:']
OTHER_BLOCKS = [['Args:', '    x (int): thing'], ['Returns:', '    int: one'], ['Note:', '    a note'],
                ['Raises:', '    ValueError: never']]


class DocSpec(object):
    """what a docstring holds: layout and the unique marker of each example block"""

    def __init__(self, layout, markers):
        self.layout = layout          # 'google' | 'freeform' | 'none'
        self.markers = markers        # one per block / group, in order
        self.tails = {}               # block marker -> marker of a second group of the same block, behind two empty lines
        self.ignored = []             # markers under a header that freeform collection leaves out
        self.shapes = set()


def docstring_lines(rng, ind, uid, nblocks, layout, quote='"""', first_line_prose=True):
    """lines of a docstring literal whose example blocks print unique markers"""
    L = [ind + quote + ('Summary %s.' % uid if first_line_prose else ''), '']
    markers = []
    tails = {}
    ignored = []
    shapes = set()
    if layout == 'google':
        opening_header = rng.random() < 0.15
        # one docstring in six spells ALL its headers the other accepted ways (a double colon, a blank before the colon)
        alt_tags = ['Example::', 'Doctest::', 'Example :', 'Examples ::'] if rng.random() < 0.17 else None
        if opening_header:
            # the first block header stands on the opening line, directly behind the quotes
            L = []
        elif rng.random() < 0.7:
            L += [ind + ln for ln in OTHER_BLOCKS[0]] + ['']
        for b in range(nblocks):
            m = '%s_%d' % (uid, b)
            markers.append(m)
            head = ind + rng.choice(alt_tags or GOOGLE_TAGS)
            if opening_header and b == 0:
                head = ind + quote + head.strip()
            r_layout = rng.random()
            if r_layout < 0.12 and not (opening_header and b == 0):
                # an empty line under the header, then the examples at the header's own indentation (the layout of the
                # standard library's docstrings under a google-style header)
                L += [head, '', ind + '>>> print("%s")' % m, ind + '%s' % m, '']
                shapes.add('google-body-at-the-indentation-of-its-header')
                continue
            if r_layout < 0.3 and not (opening_header and b == 0):
                # an empty line between the header and its (indented) body
                L += [head, '']
                shapes.add('google-empty-line-under-the-header')
            else:
                L += [head]
            L += [ind + '    >>> print("%s")' % m, ind + '    %s' % m, '']
            if rng.random() < 0.2 and not (opening_header and b == 0):
                # the block goes on behind two (or three) empty lines: a second group of the same block
                tails[m] = m + '77'
                L += [''] * rng.choice([1, 1, 2]) + [ind + '    >>> print("%s")' % tails[m], ind + '    %s' % tails[m], '']
            if rng.random() < 0.3:
                L += [ind + ln for ln in rng.choice(OTHER_BLOCKS[1:])] + ['']
    elif layout == 'freeform':
        for b in range(nblocks):
            m = '%s_%d' % (uid, b)
            markers.append(m)
            if rng.random() < 0.2:
                # a block under one of the headers that freeform collection leaves out, made of several parts (a want
                # between its statements): none of it belongs to the doctest
                ig = [m + '55', m + '56']
                ignored.extend(ig)
                L += [ind + rng.choice(['Ignore:', 'Script:', 'Benchmark:', 'DisableDoctest:', 'SkipDoctest:']),
                      ind + '    >>> print("%s")' % ig[0], ind + '    ' + ig[0], ind + '    >>> print("%s")' % ig[1],
                      ind + '    ' + ig[1], '', ind + 'prose behind the block that is left out', '']
            L += [ind + '>>> print("%s")' % m, ind + m, '', ind + 'prose between groups', '']
    L.append(ind + quote)
    ds = DocSpec(layout, markers)
    ds.tails = tails
    ds.ignored = ignored
    ds.shapes = shapes
    ds.opening_header = layout == 'google' and opening_header
    ds.alt_tags = layout == 'google' and bool(alt_tags)
    return L, ds


class ModuleSpec(object):
    def __init__(self):
        self.src = ''
        self.inventory = {}      # callname -> DocSpec   (what must be collected)
        self.forbidden = {}      # marker -> why it must not be collected
        self.features = set()


class ModuleGen(object):
    def __init__(self, rng, seed):
        self.rng = rng
        self.seed = seed
        self.out = []
        self.spec = ModuleSpec()
        self.uid = 0

    def nu(self):
        self.uid += 1
        return 'U%dx%d' % (self.seed, self.uid)

    def doc(self, ind, layout=None, nblocks=None, collect_as=None, forbid=None):
        rng = self.rng
        layout = layout or rng.choice(['google', 'freeform', 'none'])
        nb = nblocks or rng.randint(1, 3)
        lines, ds = docstring_lines(rng, ind, self.nu(), nb, layout, quote=rng.choice(['"""', '"""', "'''"]))
        self.out.extend(lines)
        if collect_as is not None and layout != 'none':
            self.spec.inventory[collect_as] = ds
            if getattr(ds, 'opening_header', False):
                self.spec.features.add('google-header-on-the-opening-line')
            if getattr(ds, 'alt_tags', False):
                self.spec.features.add('google-headers-in-other-spellings')
        if ds.tails:
            self.spec.features.add('google-block-goes-on-behind-empty-lines')
        for shp in ds.shapes:
            self.spec.features.add(shp)
        for m in ds.ignored:
            self.spec.forbidden[m] = 'under a header that freeform collection leaves out'
            self.spec.features.add('freeform-block-left-out')
        if forbid is not None:
            for m in list(ds.markers) + list(ds.tails.values()):
                self.spec.forbidden[m] = forbid
        return ds

    def func(self, ind, name, callname, collect, is_async=False, deco=None, nested=True, args=None, forbid=None):
        rng = self.rng
        out = self.out
        if deco:
            out.append(ind + deco)
        if args is None:
            args = 'self' if ('.' in callname and deco != '@staticmethod') else ''
            if deco == '@classmethod':
                args = 'cls'
        out.append(ind + ('async ' if is_async else '') + 'def %s(%s):' % (name, args))
        self.doc(ind + '    ', collect_as=callname if collect else None,
                 forbid=None if collect else (forbid or 'not collectable'))
        if is_async:
            self.spec.features.add('async')
        if nested and rng.random() < 0.4:
            out.append(ind + '    def inner_%s():' % name)
            self.doc(ind + '        ', layout='freeform', nblocks=1, forbid='function nested in a function')
            out.append(ind + '        return 1')
            self.spec.features.add('nested-func')
        if nested and rng.random() < 0.2:
            out.append(ind + '    class InnerC_%s:' % name)
            self.doc(ind + '        ', layout='freeform', nblocks=1, forbid='class nested in a function')
            out.append(ind + '        pass')
            self.spec.features.add('class-in-func')
        out.append(ind + '    return 1')
        out.append('')

    def klass(self, k):
        rng = self.rng
        out = self.out
        cn = 'K%d' % k
        if rng.random() < 0.2:
            out.append('@_cdeco')
            self.spec.features.add('decorated-class')
        out.append('class %s:' % cn)
        self.doc('    ', collect_as=cn)
        out.append('    attr = 1')
        out.append('')
        have_init = False
        for j in range(rng.randint(0, 5)):
            mk = rng.choice(['m', 'static', 'cls', 'prop', 'amethod', 'nestedcls', 'setter', 'deleter', 'wrapped', 'init',
                             'ctxmethod', 'setter_stacked', 'getter_again', 'rewrapped', 'private', 'owrapped'])
            if mk == 'init':
                if have_init:
                    mk = 'm'
                have_init = True
            self.spec.features.add('method:' + mk)
            if mk == 'm':
                self.func('    ', 'm%d' % j, '%s.m%d' % (cn, j), True)
            elif mk == 'init':
                self.func('    ', '__init__', '%s.__init__' % cn, True, nested=False)
                # __init__ must not return a value: fix the generated body
                for idx in range(len(out) - 1, -1, -1):
                    if out[idx].strip() == 'return 1':
                        out[idx] = out[idx].replace('return 1', 'return None')
                        break
            elif mk == 'rewrapped':
                # wrapped by an assignment behind the definition (the spelling older code uses instead of decorators)
                self.func('    ', 'rw%d' % j, '%s.rw%d' % (cn, j), True, nested=False)
                out.append('    rw%d = %s' % (j, rng.choice(['staticmethod(_deco(rw%d))', 'classmethod(_deco(rw%d))', 'property(fget=rw%d)',
                                                            '_deco(rw%d) if attr else rw%d', 'staticmethod(rw%d)',
                                                            '_deco(f=rw%d)']).replace('%d', str(j))))
                out.append('')
            elif mk == 'private':
                # a class-private name (two leading underscores): the class namespace holds it under a mangled key, the
                # doctest is named as the source spells it
                self.func('    ', '__pv%d' % j, '%s.__pv%d' % (cn, j), True, nested=False)
            elif mk == 'amethod':
                self.func('    ', 'am%d' % j, '%s.am%d' % (cn, j), True, is_async=True)
            elif mk == 'static':
                self.func('    ', 's%d' % j, '%s.s%d' % (cn, j), True, deco='@staticmethod')
            elif mk == 'cls':
                self.func('    ', 'c%d' % j, '%s.c%d' % (cn, j), True, deco='@classmethod')
            elif mk == 'owrapped':
                self.func('    ', 'ow%d' % j, '%s.ow%d' % (cn, j), True, deco='@_odeco')
            elif mk == 'wrapped':
                self.func('    ', 'w%d' % j, '%s.w%d' % (cn, j), True, deco='@_deco')
            elif mk == 'ctxmethod':
                # wrapped by a functools.wraps based decorator that lives in another module
                self.func('    ', 'x%d' % j, '%s.x%d' % (cn, j), True, deco='@contextlib.contextmanager')
            elif mk == 'prop':
                self.func('    ', 'p%d' % j, '%s.p%d' % (cn, j), True, deco='@property', nested=False)
            elif mk in ('setter', 'deleter'):
                self.func('    ', 'q%d' % j, '%s.q%d' % (cn, j), True, deco='@property', nested=False)
                out.append('    @q%d.%s' % (j, mk))
                out.append('    def q%d(self%s):' % (j, ', v' if mk == 'setter' else ''))
                self.doc('        ', layout='freeform', nblocks=1, forbid='property %s' % mk)
                out.append('        pass')
                out.append('')
            elif mk == 'getter_again':
                # the getter is declared a second time through the accessor: the property's docstring is the
                # second one, the first function object is gone
                out.append('    @property')
                out.append('    def ga%d(self):' % j)
                self.doc('        ', layout=rng.choice(['google', 'freeform']), nblocks=1, forbid='getter replaced by a later @x.getter')
                out.append('        return 1')
                out.append('')
                self.func('    ', 'ga%d' % j, '%s.ga%d' % (cn, j), True, deco='@ga%d.getter' % j, nested=False)
            elif mk == 'setter_stacked':
                # a setter / deleter that carries a further dotted decorator above the accessor decorator
                self.func('    ', 'r%d' % j, '%s.r%d' % (cn, j), True, deco='@property', nested=False)
                acc = rng.choice(['setter', 'deleter'])
                out.append('    @_ns.mark')
                out.append('    @r%d.%s' % (j, acc))
                out.append('    def r%d(self%s):' % (j, ', v' if acc == 'setter' else ''))
                self.doc('        ', layout='freeform', nblocks=1, forbid='property %s below another decorator' % acc)
                out.append('        pass')
                out.append('')
            elif mk == 'nestedcls':
                out.append('    class N%d:' % j)
                self.doc('        ', layout='freeform', nblocks=1, forbid='nested class')
                out.append('        def nm(self):')
                self.doc('            ', layout='freeform', nblocks=1, forbid='method of a nested class')
                out.append('            return 1')
                out.append('')

    def generate(self):
        rng = self.rng
        out = self.out
        out += ['import functools, os, contextlib', 'from os.path import join', 'from collections import OrderedDict', '',
                'def _deco(f):', '    @functools.wraps(f)', '    def w(*a, **k):', '        return f(*a, **k)',
                '    return w', '', 'def _cdeco(c):', '    return c', '', 'class _ns:', '    mark = staticmethod(lambda f: f)', '',
                # a decorator in the idiom older than functools.wraps: name and docstring copied by hand (the wrapper keeps
                # its own __qualname__)
                'def _odeco(f):', '    def w(*a, **k):', '        return f(*a, **k)', '    w.__name__ = f.__name__',
                '    w.__doc__ = f.__doc__', '    return w', '']
        head = []
        if rng.random() < 0.5:
            save = self.out
            self.out = head
            self.doc('', layout=rng.choice(['google', 'freeform']), collect_as='__doc__')
            self.out = save
            self.spec.features.add('module-docstring')
        n = rng.randint(2, 7)
        for k in range(n):
            kind = rng.choice(['func', 'afunc', 'deco', 'class', 'class', 'if', 'try', 'main', 'with', 'adeco', 'ctxmgr', 'notmain', 'handler', 'matcharm', 'tryelse', 'bytesdoc',
                              'forbody', 'subclass', 'rewrap', 'odeco'])
            self.spec.features.add('top:' + kind)
            if kind == 'func':
                self.func('', 'f%d' % k, 'f%d' % k, True)
            elif kind == 'rewrap':
                self.func('', 'rw%d' % k, 'rw%d' % k, True)
                out.append('rw%d = %s' % (k, rng.choice(['_deco(_deco(rw%d))', '_deco(f=rw%d)', '_deco(rw%d) if True else rw%d',
                                                        '_deco(rw%d)', 'functools.lru_cache(maxsize=None)(rw%d) and rw%d']
                                                       ).replace('%d', str(k))))
                out.append('')
            elif kind == 'afunc':
                self.func('', 'af%d' % k, 'af%d' % k, True, is_async=True)
            elif kind == 'deco':
                self.func('', 'd%d' % k, 'd%d' % k, True, deco='@_deco')
            elif kind == 'odeco':
                self.func('', 'od%d' % k, 'od%d' % k, True, deco='@_odeco')
            elif kind == 'ctxmgr':
                self.func('', 'cm%d' % k, 'cm%d' % k, True, deco='@contextlib.contextmanager')
            elif kind == 'adeco':
                self.func('', 'ad%d' % k, 'ad%d' % k, True, deco='@_deco', is_async=True)
            elif kind == 'if':
                out.append('if True:')
                self.func('    ', 'c%d' % k, 'c%d' % k, True)
            elif kind == 'try':
                out.append('try:')
                self.func('    ', 't%d' % k, 't%d' % k, True)
                out += ['except Exception:', '    pass', '']
            elif kind == 'with':
                out.append('with open(os.devnull) as _f:')
                self.func('    ', 'w%d' % k, 'w%d' % k, True)
            elif kind == 'handler':
                # the pure-Python fallback idiom: the definition sits in an except handler that runs on import
                out += ['try:', '    raise ImportError("no accelerator")', 'except ImportError:']
                self.func('    ', 'h%d' % k, 'h%d' % k, True)
            elif kind == 'matcharm':
                out += ['match %d:' % k, '    case %d:' % k]
                self.func('        ', 'ma%d' % k, 'ma%d' % k, True)
            elif kind == 'tryelse':
                out += ['try:', '    pass', 'except Exception:', '    pass', rng.choice(['else:', 'finally:'])]
                self.func('    ', 'te%d' % k, 'te%d' % k, True)
            elif kind == 'forbody':
                out.append(rng.choice(['for _i%d in range(1):' % k, 'while True:']))
                self.func('    ', 'fb%d' % k, 'fb%d' % k, True)
                if out[-1] == '':
                    out.pop()
                out += ['    break', '']
            elif kind == 'subclass':
                # a class that inherits documented methods: they belong to the base, only its own members to the subclass
                out.append('class B%d:' % k)
                self.doc('    ', collect_as='B%d' % k)
                self.func('    ', 'inherited', 'B%d.inherited' % k, True, nested=False)
                self.func('    ', 'shared', 'B%d.shared' % k, True, deco='@staticmethod', nested=False)
                out.append('class S%d(B%d):' % (k, k))
                self.doc('    ', collect_as='S%d' % k)
                self.func('    ', 'own', 'S%d.own' % k, True, nested=False)
                out.append('    alias = B%d.inherited' % k if False else '    attr2 = 2')
                out.append('')
            elif kind == 'bytesdoc':
                # the first statement is a bytes literal (or a concatenation): not a docstring, nothing to collect
                m = self.nu() + '_0'
                lit = rng.choice(['b"""\n    >>> print("%s")\n    %s\n    """' % (m, m),
                                  '"Summary " + "\\n>>> print(\'%s\')"' % m])
                out += ['def bd%d():' % k, '    ' + lit, '    return 1', '']
                self.spec.forbidden[m] = 'a bytes literal / an expression as first statement is not a docstring'
                self.spec.features.add('top:bytesdoc')
            elif kind == 'notmain':
                # not the main guard: the block runs on import, its definitions are collected
                out.append('if %s:' % rng.choice(["__name__ != '__main__'", "'__main__' != __name__", "__name__ is not None",
                                                   "__name__ not in ('__main__',)"]))
                self.func('    ', 'nm%d' % k, 'nm%d' % k, True)
            elif kind == 'main':
                # the guard written either way around; sometimes with an else branch, whose definitions the module
                # does make on import (finding F31)
                out.append('if %s:' % rng.choice(["__name__ == '__main__'", '__name__ == "__main__"',
                                                   "'__main__' == __name__"]))
                self.func('    ', 'm%d' % k, 'm%d' % k, False, forbid='code under the __main__ guard')
                if rng.random() < 0.3:
                    out.append('else:')
                    self.func('    ', 'me%d' % k, 'me%d' % k, True)
                    self.spec.features.add('main-guard-else')
            elif kind == 'class':
                self.klass(k)
        if rng.random() < 0.25:
            # PEP 562: a module-level __dir__ that shows only part of the namespace (the public names)
            public = sorted(n for n in self.spec.inventory if '.' not in n and n != '__doc__')[:2]
            out += ['__all__ = %r' % (public,), '', 'def __dir__():', '    return sorted(__all__)', '']
            self.spec.features.add('module-dir-hook')
        self.spec.src = '\n'.join(head + out) + '\n'
        return self.spec


def expected_collection(spec, style):
    """{(callname, num): frozenset(markers)} that collection must yield for this style"""
    exp = {}
    for cn, ds in spec.inventory.items():
        if style == 'google' or (style == 'auto' and ds.layout == 'google'):
            if ds.layout == 'google':
                for b, m in enumerate(ds.markers):
                    exp[(cn, b)] = frozenset([m] + ([ds.tails[m]] if m in ds.tails else []))
        else:
            # freeform: one doctest per docstring holding every group
            if ds.markers:
                exp[(cn, 0)] = frozenset(list(ds.markers) + list(ds.tails.values()))
    return exp


def observed_collection(examples):
    obs = {}
    dups = []
    for e in examples:
        key = (e.callname, e.num)
        if key in obs:
            dups.append(key)
        obs[key] = frozenset(MARK_RE.findall(e.docsrc))
    return obs, dups


# --------------------------------------------------------------------------
# package trees (C07)
# --------------------------------------------------------------------------

def build_package_tree(rng, root, seed):
    """random tree; returns (package dir, markers reachable through an unbroken __init__ chain, listing)"""
    exp = set()
    cnt = [0]
    broken = [0]
    build_package_tree.last_broken = broken

    def modsrc(marker):
        return 'def f():\n    """\n    Example:\n        >>> print("%s")\n        %s\n    """\n' % (marker, marker)

    def mk(d, depth, reachable):
        has_init = rng.random() < 0.7 or depth == 0
        if has_init:
            cnt[0] += 1
            m = 'U%dx%d_0' % (seed, cnt[0])
            body = modsrc(m) if rng.random() < 0.6 else ''
            with open(os.path.join(d, '__init__.py'), 'w') as f:
                f.write(body)
            if reachable and body:
                exp.add(m)
        r2 = reachable and has_init
        for k in range(rng.randint(0, 3)):
            cnt[0] += 1
            m = 'U%dx%d_0' % (seed, cnt[0])
            with open(os.path.join(d, 'mod%d.py' % k), 'w') as f:
                f.write(modsrc(m))
            if r2:
                exp.add(m)
        if rng.random() < 0.3:
            with open(os.path.join(d, 'notes.txt'), 'w') as f:
                f.write('>>> print("TXT")\nTXT\n')
        if rng.random() < 0.25:
            # a module that does not parse (a broken escape in a non-raw docstring, or plain bad syntax): a warning,
            # no doctest of its own, and nothing of its neighbours under its name
            cnt[0] += 1
            bad = rng.choice(['def g():\n    """\n    C:\\N{NOT A NAME}\n    >>> print("UBROKEN%d")\n    """\n' % cnt[0],
                              'def g():\n    """\n    >>> print("UBROKEN%d")\n    """\nx = = 1\n' % cnt[0]])
            with open(os.path.join(d, rng.choice(['broken.py', 'zbroken.py', 'mod_z_broken.py'])), 'w') as f:
                f.write(bad)
            broken[0] += 1
        if rng.random() < 0.2:
            os.mkdir(os.path.join(d, 'data'))
            with open(os.path.join(d, 'data', 'stray.py'), 'w') as f:
                cnt[0] += 1
                f.write(modsrc('U%dx%d_0' % (seed, cnt[0])))
        if depth < 3:
            for k in range(rng.randint(0, 2)):
                sub = os.path.join(d, 'sub%d' % k)
                os.mkdir(sub)
                mk(sub, depth + 1, r2)
    pkg = os.path.join(root, 'pkg_%d_zz' % seed)
    os.mkdir(pkg)
    mk(pkg, 0, True)
    listing = sorted(os.path.relpath(os.path.join(dp, f), root) for dp, _, fn in os.walk(root) for f in fn)
    return pkg, exp, listing


# --------------------------------------------------------------------------
# modules whose doctests have by-construction outcomes (C10 C15)
# --------------------------------------------------------------------------

OUTCOMES = {
    # kind: (body lines, outcome, does its body call mark())
    'pass': (['>>> mark("{id}")', '>>> print("a")', 'a'], 'passed', True),
    'pass_nowant': (['>>> mark("{id}")'], 'passed', True),
    'pass_multi': (['>>> mark("{id}")', '>>> x = [1,', '...      2]', '>>> print(x)', '[1, 2]'], 'passed', True),
    # a comment in the middle of the doctest that starts like a force-disable marker
    'pass_marker_comment': (['>>> mark("{id}")', '>>> # failing inputs are reported through the return value',
                             '>>> # SCRIPT style usage follows', '>>> print("a")', 'a'], 'passed', True),
    # ends with sys.stdout replaced by a stream of its own: the reports of the later doctests must still appear
    'pass_replaces_stdout': (['>>> mark("{id}")', '>>> import sys, io', '>>> sys.stdout = io.StringIO()'], 'passed', True),
    # emits a Python warning while it runs, then passes / fails / is skipped
    'pass_warns': (['>>> import warnings', '>>> mark("{id}")', '>>> warnings.warn("w {id}")', '>>> print("a")', 'a'], 'passed', True),
    'fail_output_warns': (['>>> import warnings', '>>> mark("{id}")', '>>> warnings.warn("w {id}")', '>>> print("a")', 'b'],
                          'failed', True),
    'fail_exc_warns': (['>>> import warnings', '>>> mark("{id}")', '>>> warnings.warn("w {id}", DeprecationWarning)',
                        '>>> raise ValueError("v")'], 'failed', True),
    'fail_output': (['>>> mark("{id}")', '>>> print("a")', 'b'], 'failed', True),
    'fail_exc': (['>>> mark("{id}")', '>>> raise ValueError("v")'], 'failed', True),
    'fail_late': (['>>> mark("{id}")', '>>> print("a")', 'a', '>>> print("c")', 'd'], 'failed', True),
    'all_skipped': (['>>> # xdoctest: +SKIP', '>>> mark("{id}")'], 'skipped', False),
    'all_skipped_req': (['>>> # xdoctest: +REQUIRES(module:xv_nx_mod_zz)', '>>> mark("{id}")', 'BOGUS'], 'skipped', False),
    # opens with a block +SKIP that is switched off again further down: the rest runs
    'skip_then_unskip': (['>>> # xdoctest: +SKIP', '>>> print("never")', 'BOGUS', '>>> # xdoctest: -SKIP', '>>> mark("{id}")',
                          '>>> print("a")', 'a'], 'passed', True),
    'skip_then_inline_unskip': (['>>> # doctest: +SKIP', '>>> print("never")', '>>> mark("{id}")  # xdoctest: -SKIP',
                                 '>>> print("still skipped")', 'BOGUS'], 'passed', True),
    'partly_skipped': (['>>> mark("{id}")', '>>> print("a")  # xdoctest: +SKIP', 'zzz', '>>> print("b")', 'b'], 'passed', True),
    'expected_exc': (['>>> mark("{id}")', '>>> raise ValueError("v")', 'Traceback (most recent call last):',
                      'ValueError: v'], 'passed', True),
    # the only statement of the doctest raises the exception its want documents (nothing else is logged)
    'expected_exc_only': (['>>> raise ValueError("v {id}")', 'Traceback (most recent call last):', 'ValueError: v {id}'],
                          'passed', False),
    'disabled': (['>>> # DISABLE_DOCTEST', '>>> mark("{id}")', '>>> raise ValueError("v")'], 'disabled', True),
    'disabled_script': (['>>> # SCRIPT', '>>> mark("{id}")'], 'disabled', True),
    # the force-disabling comments are recognised whatever their case
    'disabled_lowercase': (['>>> # disable_doctest', '>>> mark("{id}")'], 'disabled', True),
    'disabled_titlecase': (['>>> # Unstable: depends on the machine', '>>> mark("{id}")'], 'disabled', True),
    'comment_only': (['>>> # just a comment'], 'skipped', False),
    # a remark, an empty prompt line, and every real statement skipped: nothing runs
    'remark_then_all_skipped': (['>>> # a remark', '>>>', '>>> mark("{id}")  # xdoctest: +SKIP', '>>> print("a")  # xdoctest: +SKIP',
                                 'BOGUS'], 'skipped', False),
    # fails before any of its code has run: a directive that cannot be interpreted opens the doctest
    # rejected only when the part is compiled; alone (nothing has run before) and after a part that ran
    'fail_compile_first': (['>>> return 5'], 'failed', False),
    'fail_compile_late': (['>>> mark("{id}")', '>>> print("a")', 'a', '>>> break'], 'failed', True),
    'fail_bad_directive': (['>>> # xdoctest: +REQUIRES(notatag_zz)', '>>> mark("{id}")'], 'failed', False),
    'fail_bad_directive_after_skip': (['>>> print("never")  # xdoctest: +SKIP', '>>> # a comment only',
                                       '>>> mark("{id}")  # xdoctest: +REQUIRES(module:too:many:parts)'], 'failed', False),
    # a doctest that fails after it has bound a name, and doctests whose outcome depends on that name NOT being
    # there (each doctest has a namespace of its own, whatever the front end)
    'fail_after_binding': (['>>> mark("{id}")', '>>> leftover_zz = 41', '>>> print("a")', 'b'], 'failed', True),
    'fail_reads_leftover': (['>>> mark("{id}")', '>>> print(leftover_zz + 1)', '42'], 'failed', True),
    'pass_no_leftover': (['>>> mark("{id}")', '>>> print("leftover_zz" in globals())', 'False'], 'passed', True),
    # the doctest reads globals of the module under test whose names a front end may also put into the namespace
    # (the plugin's getfixture, entries of the xdoctest_namespace fixture): the module's own win
    'pass_module_getfixture': (['>>> mark("{id}")', '>>> print(getfixture("x"))', 'module-level x'], 'passed', True),
    'pass_module_limit': (['>>> mark("{id}")', '>>> print(LIMIT_ZZ)', '3'], 'passed', True),
}

# kinds whose only fault is a wrong want: with wants switched off (+IGNORE_WANT) they pass
FAIL_BY_OUTPUT = ('fail_output', 'fail_late', 'fail_output_warns', 'fail_after_binding')
# kinds that look at what an earlier 'fail_after_binding' doctest may have left behind
LEFTOVER_READERS = ('fail_reads_leftover', 'pass_no_leftover')

OUTCOME_PRELUDE = '''import os
RUNLOG = []
LIMIT_ZZ = 3
def getfixture(name):
    return "module-level " + name
def mark(i):
    RUNLOG.append(i)
    with open(os.environ["XV_MARKFILE"], "a") as f:
        f.write(i + "\\n")

'''


class OutcomeModule(object):
    def __init__(self):
        self.src = ''
        self.tests = []      # dicts: ident, callname, kind, outcome, id, marks
        self.left_out_block = False

    def enabled(self):
        return [t for t in self.tests if t['outcome'] != 'disabled']

    def counts(self):
        import collections
        return collections.Counter(t['outcome'] for t in self.enabled())


def outcome_module(rng, uid, layout='google', kinds=None, n=None, in_class=True, lead=()):
    """layout google: every doctest in an 'Example:' block; freeform: bare prompts"""
    kinds = kinds or list(OUTCOMES)
    n = n or rng.randint(1, 8)
    om = OutcomeModule()
    src = [OUTCOME_PRELUDE]
    k = 0
    pending_class = None
    prev = None
    lead = list(lead)
    for _ in range(max(n, len(lead))):
        kind = rng.choice(kinds)
        if lead:
            kind = lead.pop(0)
        elif prev == 'fail_after_binding' and rng.random() < 0.7:
            readers = [r for r in LEFTOVER_READERS if r in kinds]
            if readers:
                kind = rng.choice(readers)
        prev = kind
        body, outcome, marks = OUTCOMES[kind]
        i = 's%sk%d' % (uid, k)
        method = in_class and rng.random() < 0.25
        if method:
            cn = 'K%d' % k
            src += ['class %s:' % cn, '    def meth(self):']
            ind = '        '
            callname = '%s.meth' % cn
        else:
            src += ['def fn%d():' % k]
            ind = '    '
            callname = 'fn%d' % k
        src += [ind + '"""', ind + 'Summary.', '']
        second = None
        if layout == 'google':
            src += [ind + 'Example:'] + [ind + '    ' + ln.replace('{id}', i) for ln in body]
            if not lead and rng.random() < 0.2:
                # a second block in the same docstring: a doctest of its own, <callname>:1
                kind2 = rng.choice([kd for kd in kinds if kd not in LEFTOVER_READERS and not kd.startswith('disabled')])
                body2, outcome2, marks2 = OUTCOMES[kind2]
                i2 = i + 'b'
                src += ['', ind + 'Example:'] + [ind + '    ' + ln.replace('{id}', i2) for ln in body2]
                second = {'ident': '%s:1' % callname, 'callname': callname, 'kind': kind2, 'outcome': outcome2,
                          'id': i2, 'marks': marks2}
        else:
            src += [ind + ln.replace('{id}', i) for ln in body]
        src += [ind + '"""', ind + 'return 1', '']
        om.tests.append({'ident': '%s:0' % callname, 'callname': callname, 'kind': kind, 'outcome': outcome,
                         'id': i, 'marks': marks})
        if second:
            om.tests.append(second)
            prev = None
        k += 1
    if not lead and rng.random() < 0.25:
        # a documented function whose only doctest code stands under a header that freeform collection leaves out (two
        # parts: a want between its statements): no doctest of the module, never listed, never run
        src += ['def left_out_%s():' % uid.replace('x', '_'), '    """', '    Summary.', '',
                '    ' + rng.choice(['Ignore:', 'DisableDoctest:', 'SkipDoctest:']),
                '        >>> mark("ig%sA")' % uid, '        >>> print("a")', '        a', '        >>> mark("ig%sB")' % uid,
                '        >>> print("b")', '        WRONG', '    """', '    return 1', '']
        om.left_out_block = True
    om.src = '\n'.join(src) + '\n'
    return om

"""
Boundary monitors attached from the harness (no source hooks in xdoctest).

M-A  audit hook: every compile(source, '<doctest:...>') and exec(code) in the process
M-C  namespace snapshot: dict subclass whose clear() keeps a copy
M-D  process-state sanitizer (see ProcState)
M-E  ride-along contracts (see xv.ridealong)
"""
import os
import sys
import warnings

# --------------------------------------------------------------------------
# M-A audit hook
# --------------------------------------------------------------------------

_AUDIT = {'installed': False, 'on': False, 'events': []}


def _audit_hook(event, args):
    if not _AUDIT['on']:
        return
    if event == 'compile':
        src, fn = args
        if isinstance(fn, str) and fn.startswith('<doctest:'):
            if isinstance(src, bytes):
                src = src.decode('utf8', 'replace')
            elif not isinstance(src, str):
                src = '<%s>' % type(src).__name__
            _AUDIT['events'].append(('compile', src, fn))
    elif event == 'exec':
        co = args[0]
        fn = getattr(co, 'co_filename', '')
        if isinstance(fn, str) and fn.startswith('<doctest:'):
            _AUDIT['events'].append(('exec', fn, bool(co.co_flags & 0x80), id(co)))


def install_audit():
    if not _AUDIT['installed']:
        sys.addaudithook(_audit_hook)
        _AUDIT['installed'] = True


class AuditLog(object):
    """with AuditLog() as log: ...   -> log.events"""

    def __enter__(self):
        install_audit()
        _AUDIT['events'] = []
        _AUDIT['on'] = True
        return self

    def __exit__(self, *a):
        _AUDIT['on'] = False
        self.events = _AUDIT['events']
        _AUDIT['events'] = []
        return False

    def compiled_sources(self):
        return [e[1] for e in self.events if e[0] == 'compile']

    def pairing_ok(self):
        """every compile is followed immediately by exactly one exec of that file"""
        kinds = [e[0] for e in self.events]
        if len(kinds) % 2:
            return False
        return kinds == ['compile', 'exec'] * (len(kinds) // 2)


# --------------------------------------------------------------------------
# M-C namespace snapshot
# --------------------------------------------------------------------------

class SnapDict(dict):
    """globals dict that remembers its content when run() clears it"""
    snap = None
    n_clear = 0

    def clear(self):
        self.snap = dict(self)
        self.n_clear += 1
        super(SnapDict, self).clear()


# --------------------------------------------------------------------------
# M-D process-state sanitizer
# --------------------------------------------------------------------------

class ProcState(object):
    """what a doctest run must leave as it found it"""

    def __init__(self):
        import asyncio
        self.stdout = sys.stdout
        self.stderr = sys.stderr
        self.stdin = sys.stdin
        self.displayhook = sys.displayhook
        self.excepthook = sys.excepthook
        self.showwarning = warnings.showwarning
        self.path = list(sys.path)
        self.filters = list(warnings.filters)
        self.cwd = os.getcwd()
        try:
            asyncio.get_running_loop()
            self.loop_running = True
        except RuntimeError:
            self.loop_running = False

    def diff(self, other):
        """list of (what, before, after) between self (before) and other (after)"""
        out = []
        for name in ('stdout', 'stderr', 'stdin', 'displayhook', 'excepthook', 'showwarning'):
            a, b = getattr(self, name), getattr(other, name)
            if a is not b:
                out.append((name, repr(a)[:120], repr(b)[:120]))
        if self.path != other.path:
            added = [p for p in other.path if p not in self.path]
            removed = [p for p in self.path if p not in other.path]
            if not added and not removed:
                k = next(i for i, (a, b) in enumerate(zip(self.path + [None], other.path + [None])) if a != b)
                out.append(('sys.path', 'same entries', 'in another order or multiplicity (first difference at index %d: %r '
                            '-> %r)' % (k, (self.path + [None])[k], (other.path + [None])[k])))
            else:
                out.append(('sys.path', 'removed=%r' % (removed,), 'added=%r' % (added,)))
        if self.filters != other.filters:
            out.append(('warnings.filters', '%d filters' % len(self.filters), '%d filters; new=%r' % (
                len(other.filters), [f for f in other.filters if f not in self.filters][:3])))
        if self.cwd != other.cwd:
            out.append(('cwd', self.cwd, other.cwd))
        if self.loop_running != other.loop_running:
            out.append(('running-loop', self.loop_running, other.loop_running))
        return out


class LoopTracker(object):
    """records every event loop created through asyncio.new_event_loop while active"""

    def __enter__(self):
        import asyncio
        self.loops = []
        self._orig = asyncio.new_event_loop
        self._orig_events = asyncio.events.new_event_loop

        def tracked(*a, **k):
            loop = self._orig_events(*a, **k)
            self.loops.append(loop)
            return loop
        asyncio.new_event_loop = tracked
        asyncio.events.new_event_loop = tracked
        try:
            import asyncio.runners as runners
            self._runners = runners
            self._orig_runner = getattr(runners.events, 'new_event_loop', None)
        except Exception:
            self._runners = None
        return self

    def __exit__(self, *a):
        import asyncio
        asyncio.new_event_loop = self._orig
        asyncio.events.new_event_loop = self._orig_events
        return False

    def unclosed(self):
        return [lp for lp in self.loops if not lp.is_closed()]

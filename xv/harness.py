"""Helpers shared by the property modules: collecting and running generated doctests under the monitors."""
import io
import sys
import warnings
import contextlib

from xv import monitors
from xv import gen_programs


class ApiRaised(Exception):
    """an xdoctest API that must return raised instead"""

    def __init__(self, where, exc):
        Exception.__init__(self, '%s raised %r' % (where, exc))
        self.where = where
        self.exc = exc


def collect(doc, style='freeform', callname='c', **kw):
    """core.parse_docstr_examples with its warnings and prints captured -> (examples, warnings, printed)"""
    from xdoctest import core
    buf = io.StringIO()
    with warnings.catch_warnings(record=True) as wl:
        warnings.simplefilter('always')
        with contextlib.redirect_stdout(buf):
            exs = list(core.parse_docstr_examples(doc, callname=callname, style=style, **kw))
    return exs, wl, buf.getvalue()


class RunRecord(object):
    pass


def run_doctest(dt, T=None, verbose=0, on_error='return', extra_ns=None, mode='native'):
    """
    Run a DocTest with the instrumented namespace under the audit log.
    Returns a RunRecord: summary, raised, T, ns (SnapDict), audit, stdout_seen (what went to
    the real stdout while running), logged (concatenated logged_stdout)
    """
    rec = RunRecord()
    T = [] if T is None else T
    ns = gen_programs.make_namespace(T, cls=monitors.SnapDict)
    if extra_ns:
        ns.update(extra_ns)
    dt.global_namespace = ns
    dt.mode = mode
    rec.T = T
    rec.ns = ns
    rec.raised = None
    rec.summary = None
    out = io.StringIO()
    with monitors.AuditLog() as audit:
        try:
            with contextlib.redirect_stdout(out):
                rec.summary = dt.run(on_error=on_error, verbose=verbose)
        except BaseException as ex:     # noqa
            rec.raised = ex
    rec.audit = audit
    rec.stdout_seen = out.getvalue()
    try:
        rec.logged = ''.join(v for v in dt.logged_stdout.values() if v)
    except Exception:
        rec.logged = None
    return rec


def exc_name(summary):
    if summary and summary.get('exc_info'):
        return summary['exc_info'][0].__name__
    return None


def outcome(summary):
    if summary is None:
        return 'raised'
    for k in ('passed', 'failed', 'skipped'):
        if summary.get(k):
            return k
    return 'none'


def norm_code_lines(lines, drop_comments=True):
    out = []
    for ln in lines:
        s = ln.strip()
        if not s:
            continue
        if drop_comments and s.startswith('#'):
            continue
        out.append(s)
    return out


def user_bindings(ns):
    """the v*/s*/u*/w* variables generated programs bind"""
    out = {}
    for k, v in ns.items():
        if len(k) > 1 and k[0] in 'vsuw' and k[1:].isdigit():
            out[k] = v
    return out


def norm_binding(v, loose=False):
    """loose: string lines are compared modulo leading blanks (unprefixed string-body lines may lose
    up to four of them, the documented 'prompt width')"""
    if isinstance(v, str):
        if loose:
            return ('str', tuple(ln.lstrip(' ') for ln in v.split('\n')))
        return ('str', v)
    if isinstance(v, (list, tuple)):
        return (type(v).__name__, tuple(norm_binding(x, loose) for x in v))
    if isinstance(v, dict):
        return ('dict', tuple(sorted((repr(k), norm_binding(x, loose)) for k, x in v.items())))
    if isinstance(v, (int, float, bool)) or v is None:
        return v
    return repr(v)

"""xv - runtime-monitoring engine for the xdoctest properties (see /verif/DESIGN.md)."""

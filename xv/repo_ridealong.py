"""Runs the repository's in-process tests with the ride-along contracts attached (one pytest subprocess)."""
import os
import sys
import json
import subprocess

# in-process test modules (the plugin/CLI tests spawn subprocesses that the plugin cannot follow)
TEST_FILES = ['tests/test_parser.py', 'tests/test_core.py', 'tests/test_doctest_example.py', 'tests/test_directive.py',
              'tests/test_checker.py', 'tests/test_errors.py', 'tests/test_traceback.py', 'tests/test_static.py',
              'tests/test_dynamic.py', 'tests/test_cases.py', 'tests/test_limitations.py', 'tests/test_runner.py',
              'src/xdoctest']


def run(ctx, props, timeout=900):
    """attach the monitors to the repo's own tests; report into ctx.  Returns False when the tests are not there."""
    repo = os.environ.get('XV_REPO', '/repo')
    files = [f for f in TEST_FILES if os.path.exists(os.path.join(repo, f))]
    if not any(f.startswith('tests/') for f in files) or not os.path.exists(os.path.join(repo, 'pytest.ini')):
        ctx.unavailable.add('repository test-suite ride-along (no tests/ next to %s)' % repo)
        return False
    out = os.path.join(ctx.tmp, 'ridealong_%s_%d.json' % (ctx.prop, ctx.shard))
    env = dict(os.environ, XV_RA_OUT=out)
    cmd = [sys.executable, '-m', 'pytest', '-q', '-p', 'no:cacheprovider', '-p', 'xv.ridealong_plugin',
           '-x', '--timeout=600'] + files
    p = subprocess.run(cmd, cwd=repo, env=env, stdout=subprocess.PIPE, stderr=subprocess.STDOUT, text=True,
                       timeout=timeout)
    if not os.path.exists(out):
        raise AssertionError('ride-along pytest run produced no report:\n%s' % p.stdout[-3000:])
    rep = json.load(open(out))
    os.unlink(out)
    for k, n in rep['counts'].items():
        ctx.event('repo-tests:' + k, n)
    ctx.notes['repo_tests_ridealong'] = {'pytest_exit': rep['exitstatus'], 'files': files,
                                         'tail': p.stdout.strip().splitlines()[-1:] if p.stdout.strip() else []}
    for v in rep['violations']:
        if v['property'] == 'MONITOR':
            raise AssertionError('ride-along monitor failed inside the repo tests: %s' % v['message'])
        if v['property'] in props:
            ctx.violation('ridealong-' + v['mechanism'], "[ride-along on the repository's own tests, %s] %s" % (
                v['property'], v['message']), {'ridealong': 'repo-tests', 'details': v.get('details')})
    return True

"""
Reference models (executable specifications).  None of them imports xdoctest, and
each is written with other mechanisms than the code it judges.
"""
import re

# --------------------------------------------------------------------------
# C06: the ellipsis relation
# --------------------------------------------------------------------------

_ELL_CACHE = {}


def ell_literals(want):
    """literal pieces of a want, cut at every '...' (left to right scanner), with the
    whitespace next to a wildcard dropped from the neighbouring literal"""
    lits = []
    cur = []
    i = 0
    n = len(want)
    while i < n:
        if want[i] == '.' and want[i:i + 3] == '...':
            lits.append(''.join(cur))
            cur = []
            i += 3
        else:
            cur.append(want[i])
            i += 1
    lits.append(''.join(cur))
    k = len(lits)
    out = []
    for j, lit in enumerate(lits):
        if j > 0:
            lit = lit.lstrip()
        if j < k - 1:
            lit = lit.rstrip()
        out.append(lit)
    return out


def ell_regex(want):
    rx = _ELL_CACHE.get(want)
    if rx is None:
        pat = '^' + '.*'.join(re.escape(lit) for lit in ell_literals(want)) + r'\Z'
        rx = re.compile(pat, flags=re.DOTALL)
        if len(_ELL_CACHE) > 200000:
            _ELL_CACHE.clear()
        _ELL_CACHE[want] = rx
    return rx


def ell_placements(got, lits):
    """the same relation by exhaustive placement instead of a backtracking regex (which is exponential in the number
    of wildcards when the text does not match): the set of positions reachable after placing the pieces so far"""
    first, last = lits[0], lits[-1]
    if not got.startswith(first):
        return False
    limit = len(got) - len(last)            # the last piece is anchored at the end
    if limit < len(first) or not got.endswith(last):
        return False
    reach = {len(first)}
    for lit in lits[1:-1]:
        lo = min(reach)
        nxt = set()
        j = got.find(lit, lo)
        while j != -1 and j + len(lit) <= limit:
            nxt.add(j + len(lit))
            j = got.find(lit, j + 1)
        if not nxt:
            return False
        reach = nxt
    return min(reach) <= limit


def _ell(got, want):
    if want.count('...') <= 3 and len(got) <= 80:
        return ell_regex(want).match(got) is not None
    return ell_placements(got, ell_literals(want))


def ell_match(got, want):
    """got can be written as the literal pieces in order, first anchored at the start,
    last at the end, anything (also nothing, also newlines) for each '...'"""
    if '...' not in want:
        return got == want
    return _ell(got, want)


def match(got, want, ellipsis):
    if got == want:
        return True
    if ellipsis and '...' in want:
        return _ell(got, want)
    return False


# --------------------------------------------------------------------------
# C05: the documented output relation
# --------------------------------------------------------------------------

FLAGS = ['ELLIPSIS', 'NORMALIZE_WHITESPACE', 'IGNORE_WHITESPACE', 'NORMALIZE_REPR',
         'DONT_ACCEPT_BLANKLINE']
MARK = '<BLANKLINE>'
ANSI_RED = '\x1b[31m'
ANSI_RESET = '\x1b[0m'
ANSI_BOLD = '\x1b[1;32m'
_ANSI_KNOWN = (ANSI_RED, ANSI_RESET, ANSI_BOLD)


ANSI_RED8 = '\x9b31m'        # the same colour sequences with the 8-bit CSI introducer instead of ESC [
ANSI_RESET8 = '\x9b0m'


def strip_colour(t):
    """remove well formed SGR colour sequences  (ESC [ | CSI) digits-and-semicolons m  (scanner, no regex)"""
    if '\x1b' not in t and '\x9b' not in t:
        return t
    out = []
    i = 0
    n = len(t)
    while i < n:
        if t[i] == '\x9b' or (t[i] == '\x1b' and i + 1 < n and t[i + 1] == '['):
            j = i + (1 if t[i] == '\x9b' else 2)
            while j < n and (t[j].isdigit() or t[j] == ';'):
                j += 1
            if j < n and t[j] == 'm':
                i = j + 1
                continue
        out.append(t[i])
        i += 1
    return ''.join(out)


def colour_spans(t):
    """[(start, end)] of the well formed colour sequences in t"""
    spans = []
    i = 0
    n = len(t)
    while i < n:
        if t[i] == '\x9b' or (t[i] == '\x1b' and i + 1 < n and t[i + 1] == '['):
            j = i + (1 if t[i] == '\x9b' else 2)
            while j < n and (t[j].isdigit() or t[j] == ';'):
                j += 1
            if j < n and t[j] == 'm':
                spans.append((i, j + 1))
                i = j + 1
                continue
        i += 1
    return spans


def _is_word(c):
    return c.isalnum() or c == '_'


def _drop_prefix_letters(t, letters):
    """left to right, non overlapping: drop one of `letters` standing directly before a quote
    (an r/R may sit in between and is kept) when the letter is at the very start of the text or
    preceded by a non-word character.  The boundary character, the kept r/R and the quote belong
    to that occurrence and cannot serve as the boundary of the next one."""
    out = []
    pos = 0
    n = len(t)

    def prefix_at(k):
        # letter at k, optional r/R, quote: returns index after the quote or None
        if k < n and t[k] in letters:
            j = k + 1
            if j < n and t[j] in 'rR':
                j += 1
            if j < n and t[j] in '\'"':
                return j + 1
        return None

    while pos < n:
        c = t[pos]
        # (a quote in front of the letter: the letter is the text of a one letter string, finding F29)
        if not _is_word(c) and c not in '\'"':
            end = prefix_at(pos + 1)
            if end is not None:
                out.append(c)
                out.append(t[pos + 2:end])
                pos = end
                continue
        if pos == 0:
            end = prefix_at(0)
            if end is not None:
                out.append(t[1:end])
                pos = end
                continue
        out.append(c)
        pos += 1
    return ''.join(out)


def strip_prefixes(t):
    return _drop_prefix_letters(_drop_prefix_letters(t, 'uU'), 'bB')


def blank_marker_lines(w):
    return '\n'.join('' if line == MARK else line for line in w.split('\n'))


def cut_trailing(t):
    t = '\n'.join(line.rstrip(' \t') for line in t.split('\n'))
    return t.rstrip()


def output_matches(got, want, bits):
    """bits = (ELLIPSIS, NORMALIZE_WHITESPACE, IGNORE_WHITESPACE, NORMALIZE_REPR, DONT_ACCEPT_BLANKLINE)"""
    ell, nw, iw, nr, dab = bits
    if not want:
        return True
    if got == want:
        return True
    g = strip_prefixes(strip_colour(got))
    w = strip_prefixes(strip_colour(want))
    if not dab:
        w = blank_marker_lines(w)
    g = cut_trailing(g)
    w = cut_trailing(w)
    if nw or iw:
        g = ' '.join(g.split())
        w = ' '.join(w.split())
    if iw:
        g = ''.join(g.split())
        w = ''.join(w.split())
    if match(g, w, ell):
        return True
    if nr:
        # one side may drop one pair of surrounding quotes; under whitespace normalisation the
        # blanks this exposes are as insignificant as any other leading/trailing blanks
        def inner(x):
            x = x[1:-1]
            return x.strip() if nw else x
        for q in '"\'':
            if g.startswith(q) and g.endswith(q) and match(inner(g), w, ell):
                return True
        for q in '"\'':
            if w.startswith(q) and w.endswith(q) and match(g, inner(w), ell):
                return True
    return False


def in_reference_domain(got, want):
    """inputs whose meaning is documented: no marker in the got, a marker in the want only as
    a whole line (judged after colour removal), no carriage returns, no malformed escapes"""
    if '\r' in got or '\r' in want:
        return False
    g = strip_colour(got)
    w = strip_colour(want)
    if '\x1b' in g or '\x1b' in w or '\x9b' in g or '\x9b' in w:
        return False        # malformed escape sequences: undocumented
    if MARK in g:
        return False
    if MARK in w:
        for line in w.split('\n'):
            if MARK in line and line != MARK:
                return False
    return True


def exact_norm(t):
    return '\n'.join(line.rstrip(' \t') for line in t.split('\n')).rstrip()


def nonblank(t):
    return ''.join(t.split())


# --------------------------------------------------------------------------
# C04: directive state machine
# --------------------------------------------------------------------------

class DirectiveModel(object):
    """persistent (SKIP, REQ) + per statement overlay.  REQ is the set of unmet requirements."""

    def __init__(self, skip=False, req=()):
        self.skip = bool(skip)
        self.req = set(req)

    def block(self, ds):
        """ds: list of (name, positive, arg, met)"""
        for name, positive, arg, met in ds:
            if name == 'SKIP':
                self.skip = positive
            elif name == 'REQUIRES':
                if met:
                    continue
                if positive:
                    self.req.add(arg)
                else:
                    self.req.discard(arg)

    def enabled(self, inline=()):
        skip = self.skip
        req = set(self.req)
        for name, positive, arg, met in inline:
            if name == 'SKIP':
                skip = positive
            elif name == 'REQUIRES':
                if met:
                    continue
                if positive:
                    req.add(arg)
                else:
                    req.discard(arg)
        return (not skip) and not req

    def state(self):
        return (self.skip, frozenset(self.req))


# --------------------------------------------------------------------------
# the text the interpreter prints for an exception below the traceback
# --------------------------------------------------------------------------

def exception_text(ex):
    """message line followed by the lines of attached notes (PEP 678); for a SyntaxError the source context
    lines in front of the message are left out - what the standard doctest module compares an expected
    traceback with"""
    import traceback
    lines = traceback.format_exception_only(type(ex), ex)
    if isinstance(ex, SyntaxError):
        name = type(ex).__qualname__
        for i, ln in enumerate(lines):
            if ln.startswith(name + ':') or ln.rstrip() == name:
                lines = lines[i:]
                break
    return ''.join(lines).rstrip('\n')

#!/venv/bin/python
"""tools/mutant_patterns.py : every catalogue mutant's pattern must occur in /repo exactly as often as it says
(run after every fix: commit in /repo; a stale pattern makes `mutants.py all` stop)"""
import os, sys
here = os.path.dirname(os.path.abspath(__file__))
src = open(os.path.join(here, 'mutants.py')).read()
ns = {'__file__': os.path.join(here, 'mutants.py'), '__name__': 'm'}
exec(compile(src, 'mutants', 'exec'), ns)
bad = 0
for k, v in ns['MUTANTS'].items():
    if v['old'] is None:
        continue
    n = open(os.path.join(os.environ.get('XV_REPO', '/repo'), v['path'])).read().count(v['old'])
    if n != v.get('count', 1):
        print(k, 'pattern occurs', n, 'times, expected', v.get('count', 1))
        bad += 1
print('%d mutants checked, %d stale' % (len(ns['MUTANTS']), bad))
sys.exit(1 if bad else 0)

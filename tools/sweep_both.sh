#!/bin/sh
# tools/sweep_both.sh : quick seeds 1..5, then thorough seeds given as arguments (default 3)
HERE="$(cd "$(dirname "$0")" && pwd)"
"$HERE/sweep.sh" quick 1 2 3 4 5
"$HERE/sweep.sh" thorough ${@:-3}

#!/bin/sh
# tools/seed_in.sh <id> <property> <summary> <needs> [props to run, comma separated]
# imports the change from /tmp/seedwt/<id>, re-confirms it, runs the checks, removes the scratch worktree
HERE="$(cd "$(dirname "$0")/.." && pwd)"
ID=$1; PROP=$2; SUMMARY=$3; NEEDS=$4; PROPS=${5:-$PROP}
"$HERE/tools/import_seed.py" "$ID" "/tmp/seedwt/$ID" "$PROP" --summary "$SUMMARY" --needs "$NEEDS" || exit 1
"$HERE/tools/seeded.py" run "$ID" --props "$PROPS" 2>&1 | grep -E "^$ID" | cut -c1-700
git -C /repo worktree remove --force "/tmp/seedwt/$ID" 2>/dev/null
rm -rf "/tmp/seedwt/$ID"

#!/venv/bin/python
"""tools/fragile_cells.py [--tier quick] <seed...>: runs every check under the given seeds (scratch XV_OUT) and lists
the REQUIRED coverage cells that were observed fewer than 10 times - the ones that could starve under another seed and
turn a run inconclusive."""
import os, sys, json, shutil, tempfile, subprocess
VERIF = os.path.dirname(os.path.dirname(os.path.abspath(__file__)))
tier = 'quick'
args = sys.argv[1:]
if '--tier' in args:
    k = args.index('--tier'); tier = args[k + 1]; del args[k:k + 2]
seeds = [int(a) for a in args] or [0, 1, 2]
worst = {}
for sd in seeds:
    out = tempfile.mkdtemp(prefix='xv_frag_')
    try:
        for i in range(1, 21):
            p = 'C%02d' % i
            r = subprocess.run([os.path.join(VERIF, 'check'), p, '--tier', tier, '--seed', str(sd)],
                               env=dict(os.environ, XV_OUT=out), stdout=subprocess.PIPE, stderr=subprocess.STDOUT, text=True)
            ev = json.load(open(os.path.join(out, 'evidence', p + '.json')))
            cov = ev['coverage']
            if r.returncode != 0:
                print('seed=%d %s exit=%d %s' % (sd, p, r.returncode, cov.get('verdict_reasons')))
            for c in cov['cells_required']:
                n = cov['cells'].get(c, 0)
                if n < 10:
                    key = (p, c)
                    worst[key] = min(worst.get(key, 10 ** 9), n)
    finally:
        shutil.rmtree(out, ignore_errors=True)
for (p, c), n in sorted(worst.items()):
    print('%s  %-60s min=%d' % (p, c, n))
print('seeds', seeds, 'done')

#!/venv/bin/python
"""tools/seed_note.py <id> key=value ...   (value parsed as JSON when possible) -> updates seeded/<id>/meta.json"""
import os, sys, json
VERIF = os.path.dirname(os.path.dirname(os.path.abspath(__file__)))
sid = sys.argv[1]
p = os.path.join(VERIF, 'seeded', sid, 'meta.json')
m = json.load(open(p))
for kv in sys.argv[2:]:
    k, v = kv.split('=', 1)
    try:
        v = json.loads(v)
    except Exception:
        pass
    m[k] = v
json.dump(m, open(p, 'w'), indent=1)
open(p, 'a').write('\n')
print(sid, 'updated:', [kv.split('=')[0] for kv in sys.argv[2:]])

#!/venv/bin/python
"""
Runs the checks against the independently written breaking changes under /verif/seeded/<id>/.

    tools/seeded.py list
    tools/seeded.py run <id> [--tier quick] [--props C01,C13 | --all]
    tools/seeded.py all [--tier quick] [--allprops]      -> prints a table, writes seeded/RESULTS.json
    tools/seeded.py demo <id>                            -> runs the change's own demonstration with and without it

Each change is applied (patch -p1) to a scratch copy of /repo (src, tests, pytest.ini) under /tmp which is
removed afterwards; the checks look at the copy through XV_REPO and write their evidence to a scratch XV_OUT.
/repo itself is never modified.  (Equivalent by hand:  git -C /repo apply seeded/<id>/patch.diff; ./check Cnn;
git -C /repo checkout -- . )
"""
import os
import sys
import json
import shutil
import subprocess

VERIF = os.path.dirname(os.path.dirname(os.path.abspath(__file__)))
sys.path.insert(0, os.path.join(VERIF, 'tools'))
import mutants  # noqa: E402

SEEDED = os.path.join(VERIF, 'seeded')
ALL = ['C%02d' % i for i in range(1, 21)]


def ids():
    return sorted(d for d in os.listdir(SEEDED) if os.path.exists(os.path.join(SEEDED, d, 'patch.diff')))


def meta(sid):
    return json.load(open(os.path.join(SEEDED, sid, 'meta.json')))


def patched_copy(sid):
    root = mutants.make_copy()
    p = subprocess.run(['patch', '-p1', '-s', '-d', root, '-i', os.path.join(SEEDED, sid, 'patch.diff')],
                       stdout=subprocess.PIPE, stderr=subprocess.STDOUT, text=True)
    if p.returncode != 0:
        shutil.rmtree(root, ignore_errors=True)
        raise SystemExit('patch for %s does not apply: %s' % (sid, p.stdout))
    return root


def run(sid, tier='quick', props=None):
    m = meta(sid)
    props = props or m.get('checks_expected') or [m['property']]
    root = patched_copy(sid)
    try:
        return mutants.run_checks(root, props, tier, label=sid)
    finally:
        shutil.rmtree(root, ignore_errors=True)


def demo(sid):
    m = meta(sid)
    demo_file = os.path.join(SEEDED, sid, m.get('demo', 'DEMO.py'))
    out = {}
    for label in ('unchanged', 'changed'):
        root = patched_copy(sid) if label == 'changed' else mutants.make_copy()
        try:
            env = dict(os.environ, PYTHONPATH=os.path.join(root, 'src'), PYTHONDONTWRITEBYTECODE='1')
            shutil.copy(demo_file, os.path.join(root, 'DEMO.py'))
            p = subprocess.run(['/venv/bin/python', os.path.join(root, 'DEMO.py')], env=env, cwd=root, stdout=subprocess.PIPE,
                               stderr=subprocess.STDOUT, text=True, timeout=600)
            out[label] = p.returncode
            print('%s demo on the %s tree: exit %d' % (sid, label, p.returncode))
        finally:
            shutil.rmtree(root, ignore_errors=True)
    return out


def main(argv):
    import argparse
    ap = argparse.ArgumentParser()
    ap.add_argument('cmd', choices=['list', 'run', 'all', 'demo'])
    ap.add_argument('sid', nargs='?')
    ap.add_argument('--tier', default='quick')
    ap.add_argument('--props', default=None)
    ap.add_argument('--all', action='store_true')
    ap.add_argument('--allprops', action='store_true')
    ns = ap.parse_args(argv)
    if ns.cmd == 'list':
        for sid in ids():
            m = meta(sid)
            print('%-10s %-4s %s' % (sid, m['property'], m['summary'][:110]))
        return 0
    if ns.cmd == 'demo':
        demo(ns.sid)
        return 0
    if ns.cmd == 'run':
        props = ALL if ns.all else (ns.props.split(',') if ns.props else None)
        run(ns.sid, ns.tier, props)
        return 0
    table = {}
    for sid in ids():
        if meta(sid).get('retired'):
            # the change no longer breaks the property on the current tree (a repair in /repo made it equivalent)
            print('%-6s retired: %s' % (sid, meta(sid)['retired']))
            continue
        try:
            res = run(sid, ns.tier, ALL if ns.allprops else None)
        except SystemExit as ex:
            print('%-6s %s' % (sid, ex))
            table[sid] = {'-': 'patch-does-not-apply'}
            continue
        table[sid] = {k: v[0] for k, v in res.items()}
    with open(os.path.join(SEEDED, 'RESULTS.json'), 'w') as f:
        json.dump({'tier': ns.tier, 'results': table}, f, indent=1, sort_keys=True)
        f.write('\n')
    missed = [sid for sid, r in table.items() if 'caught' not in r.values()]
    print('seeded changes: %d, caught by at least one check: %d, missed: %r' % (len(table), len(table) - len(missed), missed))
    return 0


if __name__ == '__main__':
    sys.exit(main(sys.argv[1:]))

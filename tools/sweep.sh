#!/bin/sh
# tools/sweep.sh <tier> <seed...>  : every check under the given seeds; evidence goes to a scratch dir
TIER=$1; shift
HERE="$(cd "$(dirname "$0")/.." && pwd)"
OUT=$(mktemp -d /tmp/xv_sweep_XXXX)
for s in "$@"; do
  for i in 01 02 03 04 05 06 07 08 09 10 11 12 13 14 15 16 17 18 19 20; do
    XV_OUT=$OUT VERIF_SEED=$s "$HERE/check" C$i --tier $TIER > $OUT/log 2>&1
    rc=$?
    echo "seed=$s C$i exit=$rc $(grep -E '^(VIOLATION|INCONCLUSIVE)' $OUT/log | head -2 | cut -c1-200)"
    if [ $rc -ne 0 ]; then grep -A3 -E '^(VIOLATION|INCONCLUSIVE)' $OUT/log | head -20 | cut -c1-1500; fi
  done
done
rm -rf $OUT

#!/venv/bin/python
"""
Mutation validation of the monitors (DESIGN.md section 8).

    tools/mutants.py list
    tools/mutants.py run M3 [--tier quick] [--props C06,C05]     one mutant, the checks expected to fire
    tools/mutants.py all [--tier quick] [--jobs 4]                every mutant; prints a table

Each mutant is a textual edit of a scratch copy of /repo/src (under /tmp, removed afterwards); the
checks run against the copy through XV_REPO.  /repo itself is never touched.  Evidence files written
during these runs are restored afterwards (they describe the mutant, not the tree).
"""
import os
import sys
import json
import shutil
import tempfile
import subprocess

VERIF = os.path.dirname(os.path.dirname(os.path.abspath(__file__)))
REPO = '/repo'

# id: (file, old, new, [properties expected to fire], description)
MUTANTS = {}


def M(mid, path, old, new, props, desc, count=1):
    MUTANTS[mid] = dict(path=path, old=old, new=new, props=props, desc=desc, count=count)


M('P4', 'src/xdoctest/parser.py', "string = string.expandtabs()", "string = string", ['C01', 'C13'],
  'tab expansion removed')
M('P1', 'src/xdoctest/parser.py', "exec_lines = exec_source_lines[s1:s2]",
  "exec_lines = exec_source_lines[s1:s2] if s2 is None or s2 - s1 < 3 else exec_source_lines[s1:s2 - 1]",
  ['C01', 'C13'], 'slice_example drops the last line of parts of 3+ lines')
M('P2', 'src/xdoctest/parser.py', "lineno = node.decorator_list[0].lineno - 1", "lineno = node.lineno - 1",
  ['C01', 'C04'], 'decorators no longer PS1 lines')
M('E16', 'src/xdoctest/doctest_example.py', "self._unmatched_stdout.append(cap.text)",
  "self._unmatched_stdout = [cap.text]", ['C02'], 'only the last unmatched output kept')
M('M28', 'src/xdoctest/doctest_example.py',
  """                except checker.GotWantException:
                    # When the "got", doesn't match the "want"
                    self.exc_info = sys.exc_info()
                    if on_error == 'raise':
                        raise
                    break""",
  """                except checker.GotWantException:
                    # When the "got", doesn't match the "want"
                    self.exc_info = sys.exc_info()
                    if on_error == 'raise':
                        raise
                    continue""", ['C02'], 'execution continues after a got/want mismatch')
M('K4', 'src/xdoctest/checker.py', "                got = repr(got_eval)\n            except Exception as ex:",
  "                got = str(got_eval)\n            except Exception as ex:", ['C02', 'C20'], 'str instead of repr of the value')
M('R4', 'src/xdoctest/runner.py', """                if gather_all and example.is_disabled():
                    continue""", """                if gather_all and example.is_disabled() and command == 'dump':
                    continue""", ['C10', 'C15'], "force-disabled doctests run by 'all'")
M('E2', 'src/xdoctest/doctest_example.py',
  """                if not part.has_any_code():
                    if DEBUG:
                        print(f'part[{partx}] No code, skipping')
                    self._skipped_parts.append(part)
                    continue""",
  """                if not part.has_any_code():
                    if DEBUG:
                        print(f'part[{partx}] No code, skipping')
                    continue""", ['C02', 'C10', 'C15'], 'comment-only parts not counted as skipped')
M('X1', 'src/xdoctest/checker.py',
  """        # Reraise the error if the want message is formatted like an exception
        raise""",
  """        # Reraise the error if the want message is formatted like an exception
        return True""", ['C03'], 'non-traceback want swallows the exception')
M('X2', 'src/xdoctest/checker.py',
  """    i = msg.find(':', 0, end)
    if i >= 0:
        end = i
    # retain just the exception name""",
  """    # retain just the exception name""", ['C03'], 'detail stripping keeps the message')
M('D1', 'src/xdoctest/directive.py',
  """                if directive.inline:
                    state = self._inline_state
                else:
                    state = self._global_state""",
  """                state = self._global_state""", ['C04'], 'inline directives written to the persistent state')
M('D2', 'src/xdoctest/directive.py',
  """        # Clear the previous inline state
        self._inline_state.clear()""",
  """        # Clear the previous inline state
        pass""", ['C04'], 'inline overlay not cleared on update')
M('K2', 'src/xdoctest/checker.py', 'TRAILING_WS = re.compile(r"[ \\t]*$", re.UNICODE | re.MULTILINE)',
  'TRAILING_WS = re.compile(r"[ ]*$", re.UNICODE | re.MULTILINE)', ['C05'], 'trailing-blank regex loses tabs')
M('K3', 'src/xdoctest/checker.py', '''unicode_literal_re = re.compile(r"([^\\w\\'\\"]|^)[uU]([rR]?[\\'\\"])", re.UNICODE)''',
  '''unicode_literal_re = re.compile(r"()[uU]([rR]?[\\'\\"])", re.UNICODE)''', ['C05'],
  'prefix stripping without its word-boundary guard')
M('K5', 'src/xdoctest/checker.py', "        want = ' '.join(want.split())", "        want = want", ['C05'],
  'whitespace collapse on got only')
M('M3', 'src/xdoctest/checker.py', "startpos = got.find(w, startpos, endpos)", "startpos = got.find(w, startpos)",
  ['C06'], 'end bound of the ellipsis scan removed')
M('M4', 'src/xdoctest/checker.py',
  """        if got.startswith(w):
            startpos = len(w)
            del ws[0]
        else:
            return False""",
  """        if got.startswith(w):
            startpos = len(w)
            del ws[0]""", ['C06'], 'start anchor of the ellipsis match dropped')
M('M7', 'src/xdoctest/static_analysis.py',
  """        if self._current_classname is None:
            callname = node.name
            self._current_classname = callname
            docstr, doclineno, doclineno_end = self._get_docstring(node)""",
  """        if True:
            callname = node.name
            self._current_classname = callname
            docstr, doclineno, doclineno_end = self._get_docstring(node)""", ['C07', 'C16'], 'nested classes visited')
M('S4', 'src/xdoctest/static_analysis.py',
  """            for child in node.orelse:
                self.visit(child)
            return
        self.generic_visit(node)  # nocover""",
  """            for child in node.orelse:
                self.visit(child)
        self.generic_visit(node)  # nocover""", ['C07'], 'main guard no longer ignored')
M('S5', 'src/xdoctest/static_analysis.py',
  """                    if decor.attr == 'setter':
                        # callname = callname + '.fset'
                        return""",
  """                    if decor.attr == 'setter':
                        # callname = callname + '.fset'
                        pass""", ['C07', 'C16'], 'property setters collected')
M('G1', 'src/xdoctest/core.py', "example_tags = ('Example', 'Doctest', 'Script', 'Benchmark')",
  "example_tags = ('Example', 'Script', 'Benchmark')", ['C07'], "'Doctest:' no longer an example tag")
M('E4', 'src/xdoctest/doctest_example.py',
  """                            found_lineno = sub_tb.tb_lineno
                            break""",
  """                            found_lineno = sub_tb.tb_lineno""", ['C08', 'C09'], 'innermost instead of outermost doctest frame')
M('L1', 'src/xdoctest/core.py', "body_lineno = label_lineno + 1", "body_lineno = label_lineno", ['C08'],
  'google block offset without the +1')
M('R1', 'src/xdoctest/runner.py', "    n_passed = sum(s['passed'] for s in summaries)", "    n_passed = sum(s['passed'] or s['skipped'] for s in summaries)", ['C10'], 'skipped counted as passed')
M('R2', 'src/xdoctest/__main__.py', "    n_failed = run_summary.get('n_failed', 0)", "    n_failed = run_summary.get('n_total', 0) - run_summary.get('n_passed', 0)", ['C10', 'C15'], 'exit status from total - passed (skipped doctests fail the run)')
M('E7', 'src/xdoctest/doctest_example.py', "        self.global_namespace.clear()\n", "        pass\n", ['C11'],
  'namespace not cleared after the run')
M('E14', 'src/xdoctest/doctest_example.py', "        self._unmatched_stdout = []\n\n        self._skipped_parts = []",
  "        self._skipped_parts = []", ['C11'], 'carried-over output not reset at the start of a run')
M('E15', 'src/xdoctest/directive.py', "self._global_state = copy.deepcopy(DEFAULT_RUNTIME_STATE)",
  "self._global_state = copy.copy(DEFAULT_RUNTIME_STATE)", ['C11'], 'shallow copy of the default state')
M('U1', 'src/xdoctest/utils/util_stream.py', """            except Exception:  # nocover
                raise
            finally:
                self.stop()""", """            except Exception:  # nocover
                raise
            else:
                if type_ is None or issubclass(type_, Exception):
                    self.stop()""", ['C12'], 'stdout not restored when SystemExit/KeyboardInterrupt passes through')
M('U2', 'src/xdoctest/utils/util_import.py', """        need_recover = False
        if len(sys.path) <= self.index:  # nocover""", """        need_recover = False
        if ex_type is not None:
            return None
        if len(sys.path) <= self.index:  # nocover""", ['C12', 'C17'], 'sys.path entry left behind when the import fails')
M('U3', 'src/xdoctest/doctest_example.py',
  """                                else:
                                    asyncio.run(eval(code, test_globals))""",
  """                                else:
                                    asyncio.new_event_loop().run_until_complete(eval(code, test_globals))""",
  ['C12'], 'asyncio.run replaced by a loop that is never closed')
M('W1', 'src/xdoctest/parser.py', "        except Exception as orig_ex:\n\n            if labeled_lines is None:",
  "        except SyntaxError as orig_ex:\n\n            if labeled_lines is None:", ['C14'],
  'parse wraps only SyntaxError')
M('I1', 'src/xdoctest/utils/util_import.py', """        subdir = os.path.normpath(dirname(modpath))
        while subdir and subdir != base:
            if not exists(join(subdir, '__init__.py')):
                return False
            subdir = dirname(subdir)
        return True""", """        return True""", ['C17'], '__init__ chain check skipped')
M('F0', 'src/xdoctest/doctest_part.py', "            for line in utils.util_str.split_lf_lines(want_text):",
  "            for line in utils.util_str.split_lf_lines(want_text)[:-1] or utils.util_str.split_lf_lines(want_text):", ['C18'],
  'format_part drops the last want line of multi-line wants')
M('N1', 'src/xdoctest/doctest_part.py', "            start = startline + self.line_offset\n",
  "            start = startline + self.line_offset + (1 if self.line_offset else 0)\n", ['C18'],
  'line numbers off by one after the first part')
M('B1', 'src/xdoctest/parser.py',
  """                if all(_hasprefix(s, ('...',)) for s in source_lines[1:]):
                    mode_hint = 'single'""",
  """                if all(_hasprefix(s, ('...',)) for s in source_lines[1:]):
                    pass""", ['C20'], 'old-style detection disabled')


M('L2', 'src/xdoctest/parser.py',
  """                elif line_indent < state_indent:
                    curr_state = TEXT
                else:
                    curr_state = WANT""",
  """                else:
                    curr_state = WANT""", ['C13'], 'a de-indented line no longer ends a want')
M('L3', 'src/xdoctest/parser.py', "                lineno += len(slines) + len(wlines)", "                lineno += len(slines)",
  ['C13', 'C08'], 'running line counter skips wants')
M('L4', 'src/xdoctest/parser.py',
  """                        if prev_state == DCNT:
                            # Hack to fix continuation issue
                            curr_state = DCNT
                        else:
                            curr_state = WANT""",
  """                        if True:
                            # Hack to fix continuation issue
                            curr_state = DCNT""", ['C13'], "a bare '...' under a '>>>' line taken as source instead of want")


M('F1R', 'src/xdoctest/doctest_example.py', "                            if 0 < tb_lineno <= len(orig_lines):",
  "                            if True:", ['C09'], 'F1 repair reverted: traceback rewriter indexes past the failing part')
M('F2R', 'src/xdoctest/directive.py', """                    if directive.inline and key not in state:
                        # The inline overlay starts from a copy of the
                        # persistent set, which itself stays untouched.
                        state[key] = set(self._global_state[key])
                    state[key].add(value)""", "                    state[key].add(value)", ['C04'], 'F2 repair reverted')
M('F3R', 'src/xdoctest/static_analysis.py', "    visit_AsyncFunctionDef = visit_FunctionDef\n", "", ['C07', 'C16'],
  'F3 repair reverted: async def invisible')
# (F5R withdrawn: since the F28 repair the docstring position comes from the ast node itself; the code F5 had
# repaired is only reached on interpreters without end_lineno, the revert changes no outcome here)
M('F7R', 'src/xdoctest/checker.py', "                    return _check_match(b_, a_, runstate)",
  "                    return _check_match(a_, b_, runstate)", ['C05'], 'F7 repair reverted')
M('F8R', 'src/xdoctest/parser.py',
  "final_lines = exec_source_lines[ps1_linenos[-1]:] if ps1_linenos else exec_source_lines",
  "final_lines = exec_source_lines", ['C02', 'C18'], 'F8 repair reverted')
M('F11R', 'src/xdoctest/checker.py', "                            inner = inner.strip()", "                            pass",
  ['C05'], 'F11 repair reverted')
M('F4R', 'src/xdoctest/doctest_example.py', """                    self.exc_info = sys.exc_info()
                    # A SyntaxError knows its line within the part
                    self.failed_tb_lineno = getattr(self.exc_info[1], 'lineno', None) or 1
                    if on_error == 'raise':
                        raise
                    break
""", """                    raise
""", ['C09', 'C08'], 'F4 repair reverted: compile-only SyntaxError escapes run()')
M('F9R', 'src/xdoctest/doctest_example.py', "                if directive.name == 'REQUIRES':", "                if False:", ['C04'],
  'F9 repair reverted: --options=+REQUIRES(..) stored as a bool')
M('F9bR', 'src/xdoctest/directive.py', "self._global_state.update(copy.deepcopy(default_state))",
  "self._global_state.update(default_state)", ['C11'],
  'F9 repair, second site reverted: the REQUIRES set of the session defaults is shared by every doctest')
M('F18R', 'src/xdoctest/core.py', "split_google_docblocks(docstr.expandtabs())", "split_google_docblocks(docstr)", ['C01', 'C18'],
  'F18 repair reverted: google blocks split on the raw text with tabs')
M('F20R', 'src/xdoctest/doctest_example.py', "                            exc_got = ''.join(exc_lines)",
  "                            exc_got = exc_lines[-1]", ['C03', 'C20'], 'F20 repair reverted: only the last line of the exception text is compared')
M('F21R', 'src/xdoctest/checker.py', """            elif got:
                # The want is empty after normalization, e.g. it only
                # contains <BLANKLINE> markers
""", """            elif got:
                raise AssertionError('impossible state')
""", ['C09'], 'F21 repair reverted: a failing want of <BLANKLINE> lines cannot be rendered')
M('F22R', 'src/xdoctest/utils/util_import.py', """        base = os.path.normpath(base)
        subdir = os.path.normpath(dirname(modpath))
""", """        subdir = dirname(modpath)
""", ['C17'], 'F22 repair reverted: a search path entry with a trailing separator resolves nothing')
M('F23R', 'src/xdoctest/directive.py', """                         for line in utils.util_str.split_lf_lines(text)
                         if line.strip())""", """                         for line in utils.util_str.split_lf_lines(text))""", ['C04'], 'F23 repair reverted: blank prompt lines after a block directive turn it into an inline one')
M('F24R', 'src/xdoctest/static_analysis.py', """    # Only iterate through non-blank lines otherwise tokenize will stop short
    iterable = (line for line in lines if line.strip())
    def _readline():
        return next(iterable)
    try:
        for t in tokenize.generate_tokens(_readline):
            if t[0] == tokenize.COMMENT:""", """    iterable = (line for line in lines if line)
    def _readline():
        return next(iterable)
    try:
        for t in tokenize.generate_tokens(_readline):
            if t[0] == tokenize.COMMENT:""", ['C04'], 'F24 repair reverted: comments after a whitespace-only line are not seen')
# (F25R withdrawn: since the F26 repair - balanced groups found from the top down - the guard F25 added to
# is_balanced_statement makes no observable difference any more; F26R covers the pair)
M('F26R', 'src/xdoctest/parser.py', """                a = 0
                b = 1
                while a < len(lines):
                    # move the tail pointer down until we become balanced
                    # (scan forwards, like the tokenizer does: the last lines
                    # of a multi-line string may look balanced on their own)
                    while not static.is_balanced_statement(lines[a:b], only_tokens=True) and b <= len(lines):
                        b += 1
                    if b > len(lines):
                        raise exceptions.IncompleteParseError(
                            'ill-formed doctest: cannot find balanced ps1 lines.')
                    # we found a balanced interval
                    intervals.append((a, b))
                    a = b
                    b = b + 1

                return intervals
""", """                a = len(lines) - 1
                b = len(lines)
                while b > 0:
                    while not static.is_balanced_statement(lines[a:b], only_tokens=True) and a >= 0:
                        a -= 1
                    if a < 0:
                        raise exceptions.IncompleteParseError(
                            'ill-formed doctest: cannot find balanced ps1 lines.')
                    intervals.append((a, b))
                    b = a
                    a = a - 1

                intervals = intervals[::-1]
                return intervals
""", ['C13', 'C01'], 'F26 repair reverted: balanced groups searched from the bottom up')
# (F27R withdrawn: since the F28 repair the docstring position comes from the ast node itself; the code F27 had
# repaired is only reached on interpreters without end_lineno, the revert changes no outcome here)
M('F28R', 'src/xdoctest/static_analysis.py', """        if getattr(docnode, 'end_lineno', None) is not None and PLAT_IMPL != 'PyPy':
            # Both ends of the literal are recorded, nothing to search for
            # (the search below expects the literal to start its line)
            return docnode.lineno, docnode.end_lineno
        elif hasattr(docnode, 'end_lineno'):""", """        if hasattr(docnode, 'end_lineno'):""", ['C08'], 'F28 repair reverted: docstring start searched backwards from its last line')
M('F29R', 'src/xdoctest/checker.py', """bytes_literal_re = re.compile(r"([^\\w\\'\\"]|^)[bB]([rR]?[\\'\\"])", re.UNICODE)""", """bytes_literal_re = re.compile(r"(\\W|^)[bB]([rR]?[\\'\\"])", re.UNICODE)""", ['C02', 'C05'], "F29 repair reverted: the one letter string 'b' is taken for a bytes prefix")
M('F30R', 'src/xdoctest/doctest_example.py', """            for optpart in _split_opstr(directive_optstr):""", """            for optpart in directive_optstr.split(','):""", ['C04'], 'F30 repair reverted (1): the option string is split at every comma')
M('F30bR', 'src/xdoctest/doctest_example.py', """            (['--options'], dict(type=str, default=None, dest='options',""", """            (['--options'], dict(type=str_lower, default=None, dest='options',""", ['C04'], 'F30 repair reverted (2): the option string is lower-cased')
M('F31R', 'src/xdoctest/static_analysis.py', """            for child in node.orelse:
                self.visit(child)
            return""", """            return""", ['C07'], 'F31 repair reverted (1): the else branch of a main guard is skipped')
M('F31bR', 'src/xdoctest/static_analysis.py', """        return names == ['__name__'] and values == ['__main__']""", """        return names == ['__name__'] and values == ['__main__'] and isinstance(test.left, ast.Name)""", ['C07'], 'F31 repair reverted (2): only the usual order of the main guard is recognised')
M('F32R', 'src/xdoctest/parser.py', """            if want_lines and (mode_hint in {'eval', 'single'} or wants_traceback):""", """            if want_lines and mode_hint in {'eval', 'single'}:""", ['C03'], 'F32 repair reverted: an earlier exception is credited to a later traceback want')
M('F33R', 'src/xdoctest/static_analysis.py', """                with tokenize.open(fpath) as file_:
                    source = file_.read()""", """                with open(fpath, 'rb') as file_:
                    source = file_.read()""", ['C08'], 'F33 repair reverted: a file that is not utf-8 is handed on as bytes')
M('F34R', 'src/xdoctest/runner.py', """                    if re.match(r'\\s*from\\s+[\\w.]+\\s+import\\s+\\*', line):""", """                    if ' import *' in line:""", ['C19'], "F34 repair reverted: every line mentioning ' import *' is dropped from the dump")
M('F35R', 'src/xdoctest/directive.py', """    for match in re.finditer(r',|\\(|\\)|(?<![,\\s])\\s+(?=[+-])', optstr):""", """    for match in re.finditer(r',|\\(|\\)', optstr):""", ['C04', 'C20'], 'F35 repair reverted: options separated by blanks only are one unknown directive')
M('F37R', 'src/xdoctest/parser.py', """        line_iter = enumerate(utils.util_str.split_lf_lines(string))""", """        line_iter = enumerate(string.splitlines())""", ['C13', 'C01', 'C18'], 'F37 repair reverted (parser): docstring lines are split at form feeds and unicode separators too')
M('F37bR', 'src/xdoctest/doctest_part.py', """        part_lines = utils.util_str.split_lf_lines(src_text)""", """        part_lines = src_text.splitlines()""", ['C18'], 'F37 repair reverted (display): a source line holding a separator character is shown as two lines')
# (F38R - the chunk-wide fallback removed - withdrawn: since F38b judges each comment line on its own the fallback is a
# safety net that no generated input reaches; F38bR switches the per-line rule off instead)
M('F38bR', 'src/xdoctest/parser.py', """                        if re.match(r'(else|elif|except|finally)\\b', nxt):
                            return False""", """                        if re.match(r'(else|elif|except|finally)\\b', nxt):
                            return True""", ['C18'], 'F38b repair reverted: a comment in front of an else falls back to the chunk-wide parse')
M('F39R', 'src/xdoctest/parser.py', """                if lineno > prev_end:
                    # (a statement behind a semicolon on the closing line of
                    # a multi-line statement does not start a line)
                    ps1_linenos.append(lineno)""", """                ps1_linenos.append(lineno)""", ['C01'], 'F39 repair reverted: a multi-line statement is cut where a statement behind a semicolon starts')
M('F40R', 'src/xdoctest/doctest_example.py', """                        found_lineno = 1
                    self.failed_tb_lineno = found_lineno""", """                        raise ValueError('Could not clean traceback: ex = {!r}'.format(_ex_dbg))
                    self.failed_tb_lineno = found_lineno""", ['C09'], 'F40 repair reverted: an error without a doctest frame escapes run()')
M('F41R', 'src/xdoctest/utils/util_import.py', """        elif sys.path[self.index] != self.dpath:  # nocover""", """        if sys.path[self.index] != self.dpath:  # nocover""", ['C12'], 'F41 repair reverted: sys.path shrinking inside the context raises IndexError on exit')
M('F33bR', 'src/xdoctest/static_analysis.py', """        pt = ast.parse(self.source.lstrip('\\ufeff'))""", """        pt = ast.parse(self.source.encode('utf8'))""", ['C16'], 'F33b repair reverted: the text of a module with an encoding cookie is decoded twice')
M('F42R', 'src/xdoctest/static_analysis.py', """            while (linex < len(self.sourcelines) and
                   not re.match(pattern, self.sourcelines[linex])):""", """            while not re.match(pattern, self.sourcelines[linex]):""", ['C08'], 'F42 repair reverted: the search for the def line of a decorated function has no bound')
M('F43R', 'src/xdoctest/doctest_example.py', """                            self._unmatched_stdout = []
                        else:
                            raise""", """                        else:
                            raise""", ['C03'], 'F43 repair reverted: output printed before an expected exception satisfies a later want')
M('F44R', 'src/xdoctest/utils/util_import.py', """                sys.path.pop(real_index)
                warnings.warn('\\n'.join(msg_parts))
""", """                warnings.warn('\\n'.join(msg_parts))
                sys.path.pop(real_index)
""", ['C12'], 'F44 repair reverted: the notice about a changed sys.path is given before the entry is removed')
M('F45R', 'src/xdoctest/directive.py', """            exists_flag = modname in sys.builtin_module_names""", """            exists_flag = False""", ['C04'], 'F45 repair reverted: REQUIRES(module:sys) is unmet')
M('F46R', 'src/xdoctest/checker.py', """                try:
                    got = repr(got_eval)
                except Exception as ex:
                    raise ExtractGotReprException('Error calling repr for {}. Caused by: {!r}'.format(type(got_eval), ex), ex)
                flag = check_output(got, want, runstate)
                if not flag:
                    got = got_stdout""", """                got = repr(got_eval)
                flag = check_output(got, want, runstate)
                if not flag:
                    got = got_stdout""", ['C08', 'C09'], 'F46 repair reverted: a raising __repr__ in the eval fallback escapes as an exception of the doctest')
M('F47R', 'src/xdoctest/checker.py', """        if got == want or got == want + '\\n':""", """        if got == want:""", ['C20'], 'F47 repair reverted (1): output equal to the marker text is not accepted by plain equality')
M('F47bR', 'src/xdoctest/checker.py', """    blankline_pattern = r'^[^\\S\\n]*{}[^\\S\\n]*$'.format(re.escape(BLANKLINE_MARKER))
    new_text = re.sub(blankline_pattern, '', text, flags=re.MULTILINE)""", """    blankline_pattern = re.escape(BLANKLINE_MARKER)
    new_text = re.sub(blankline_pattern, '', text, flags=re.MULTILINE)""", ['C20'], 'F47 repair reverted (2): the marker is replaced also inside a line of the want')
M('F49R', 'src/xdoctest/doctest_example.py', """                        if self.mode == 'pytest':
                            raise
                        self._skipped_parts = list(self._parts)""", """                        if True:
                            raise
                        self._skipped_parts = list(self._parts)""", ['C15'], 'F49 repair reverted: Skipped raised by the import of the module aborts the native runner')
M('F50R', 'src/xdoctest/doctest_example.py', """                test_globals['__annotations__'] = dict(test_globals['__annotations__'])""", """                pass""", ['C11'], 'F50 repair reverted: annotated assignments of a doctest land in the module')
M('F53R', 'src/xdoctest/parser.py', """                  getattr(last_node, 'end_lineno', None) == last_node.lineno):""", """                  getattr(last_node, 'end_lineno', None) == -1):""", ['C20'], 'F53 repair reverted: a one-line compound statement does not show the values of its body')
M('F54R', 'src/xdoctest/dynamic_analysis.py', """                        subkey = subkey[len(mangle_prefix) - 2:]""", """                        pass""", ['C16'], 'F54 repair reverted: dynamic analysis names class-private methods by their mangled key')
M('F56R', 'src/xdoctest/parser.py', """                        if nxt[:1] in ' \\t':
                            return False""", """                        if nxt[:1] in '':
                            return False""", ['C04'], 'F56 repair reverted: a column-0 comment inside a block gets a stand-in statement')
M('F17R', 'src/xdoctest/doctest_example.py', """                part_directive = None
                try:
                    try:
                        # Directives are extracted lazily, a malformed one
                        # may only be noticed here.
                        part_directive = part.directives
""", """                part_directive = part.directives
                try:
                    try:
""", ['C09'], 'F17 repair reverted: lazily extracted malformed directive escapes run()')
M('R3', 'src/xdoctest/runner.py', """            summaries.append(summary)
            if example.warn_list:""", """            if summary['skipped'] and summaries:
                continue
            summaries.append(summary)
            if example.warn_list:""", ['C10'], 'a skipped doctest after the first is dropped from the tally')


M('PL1', 'src/xdoctest/plugin.py', """        if self.dtest.is_disabled(pytest=True):
            pytest.skip('doctest encountered global skip directive')""", """        if False:
            pytest.skip('doctest encountered global skip directive')""", ['C15'], 'pytest runs force-disabled doctests')
M('PL2', 'src/xdoctest/plugin.py', "            dtest.config.update(self._examp_conf)\n            name = dtest.unique_callname",
  "            name = dtest.unique_callname", ['C15'], 'pytest module items ignore --xdoctest-options')


M('E17', 'src/xdoctest/doctest_example.py', "        self.global_namespace.clear()\n",
  "        if self.module is not None:\n            self.module.__dict__.update({k: v for k, v in self.global_namespace.items() if k in self.module.__dict__})\n        self.global_namespace.clear()\n",
  ['C11'], 'doctest assignments written back to the module globals')


M('U4', 'src/xdoctest/doctest_example.py', "        with warnings.catch_warnings(record=True) as self.warn_list:\n            for partx, part in enumerate(self._parts):",
  "        self.warn_list = []\n        if True:\n            for partx, part in enumerate(self._parts):", ['C12', 'C11'], 'catch_warnings around the part loop dropped')
M('F48R', 'src/xdoctest/doctest_example.py', "                            last_value_guard = _restored_last_value()", "                            last_value_guard = contextlib.nullcontext()", ['C11'], 'F48 repair reverted: builtins._ set by a doctest stays behind')
M('F48bR', 'src/xdoctest/doctest_example.py', "        with warnings.catch_warnings(record=True) as self.warn_list:\n            for partx, part in enumerate(self._parts):", "        with _restored_last_value(), warnings.catch_warnings(record=True) as self.warn_list:\n            for partx, part in enumerate(self._parts):", ['C11'], 'F48b repair reverted: builtins._ is restored when the whole doctest ends, a translation function installed by the module under test is lost after its first doctest')


M('I2', 'src/xdoctest/utils/util_import.py', """        # Check for directory-based modules (has presidence over files)
        modpath = join(dpath, _fname_we)
        if exists(modpath):
            if isfile(join(modpath, '__init__.py')):
                if _isvalid(modpath, dpath):
                    return modpath

        # If that fails, check for file-based modules
        for fname in candidate_fnames:
            modpath = join(dpath, fname)
            if isfile(modpath):
                if _isvalid(modpath, dpath):
                    return modpath""", """        # If that fails, check for file-based modules
        for fname in candidate_fnames:
            modpath = join(dpath, fname)
            if isfile(modpath):
                if _isvalid(modpath, dpath):
                    return modpath
        modpath = join(dpath, _fname_we)
        if exists(modpath):
            if isfile(join(modpath, '__init__.py')):
                if _isvalid(modpath, dpath):
                    return modpath""", ['C17'], 'a module file wins over a package of the same name')


M('DU1', 'src/xdoctest/runner.py', """                    if re.match(r'\\s*from\\s+[\\w.]+\\s+import\\s+\\*', line):""", """                    if re.match(r'\\s*from\\s+[\\w.]+\\s+import\\s', line) or re.match(r'\\s*import\\s', line):""", ['C19'],
  'dump drops every import line, not only star-imports')
M('DU2', 'src/xdoctest/runner.py', """            if part.want:
                want_text = '# doctest want:\\n'""", """            if part.want and len(part.want_lines) < 2:
                want_text = '# doctest want:\\n'""", ['C19'], 'dump loses multi-line wants')
M('DU3', 'src/xdoctest/runner.py', "        if example.num:\n", "        if False:\n", ['C19'], 'F14 repair reverted: duplicate function names')


def make_copy():
    d = tempfile.mkdtemp(prefix='xv_mut_')
    shutil.copytree(os.path.join(REPO, 'src'), os.path.join(d, 'src'),
                    ignore=shutil.ignore_patterns('__pycache__', '*.pyc', '*.egg-info'))
    shutil.copytree(os.path.join(REPO, 'tests'), os.path.join(d, 'tests'),
                    ignore=shutil.ignore_patterns('__pycache__', '*.pyc', 'pybind11_test'))
    shutil.copy(os.path.join(REPO, 'pytest.ini'), os.path.join(d, 'pytest.ini'))
    return d


def apply(mid, root):
    m = MUTANTS[mid]
    if m['old'] is None:
        raise SystemExit('mutant %s has no edit defined yet' % mid)
    path = os.path.join(root, m['path'])
    s = open(path).read()
    n = s.count(m['old'])
    if n != m['count']:
        raise SystemExit('mutant %s: pattern found %d times in %s (expected %d)' % (mid, n, m['path'], m['count']))
    s = s.replace(m['old'], m['new'])
    open(path, 'w').write(s)
    # must still compile
    subprocess.check_call(['/venv/bin/python', '-c', 'import ast,sys; ast.parse(open(sys.argv[1]).read())', path])


def run_checks(root, props, tier='quick', label='', verbose=True, keep_out=None):
    """run the checks `props` against the repository copy `root`; evidence and replays go to a scratch dir"""
    results = {}
    out = keep_out or tempfile.mkdtemp(prefix='xv_out_')
    try:
        for prop in props:
            if not os.path.exists(os.path.join(VERIF, 'xv', 'props', prop.lower() + '.py')):
                results[prop] = ('no-check', '')
                continue
            env = dict(os.environ, XV_REPO=root, XV_OUT=out)
            p = subprocess.run([os.path.join(VERIF, 'check'), prop, '--tier', tier], env=env,
                               stdout=subprocess.PIPE, stderr=subprocess.STDOUT, text=True)
            first = ''
            for line in p.stdout.splitlines():
                if line.strip().startswith('mechanism='):
                    first = line.strip()[:200]
                    break
            if not first:
                for line in p.stdout.splitlines():
                    if line.startswith('INCONCLUSIVE'):
                        first = line[:200]
            verdict = {0: 'MISSED', 1: 'caught', 2: 'inconclusive'}.get(p.returncode, 'exit%d' % p.returncode)
            results[prop] = (verdict, first)
            if verbose:
                print('%-6s %-4s %-12s %s' % (label, prop, verdict, first), flush=True)
    finally:
        if keep_out is None:
            shutil.rmtree(out, ignore_errors=True)
    return results


def run_mutant(mid, tier='quick', props=None, verbose=True):
    m = MUTANTS[mid]
    props = props or m['props']
    root = make_copy()
    try:
        apply(mid, root)
        res = run_checks(root, props, tier, label=mid, verbose=verbose)
    finally:
        shutil.rmtree(root, ignore_errors=True)
    return {k: v[0] for k, v in res.items()}


def main(argv):
    import argparse
    ap = argparse.ArgumentParser()
    ap.add_argument('cmd', choices=['list', 'run', 'all'])
    ap.add_argument('mid', nargs='?')
    ap.add_argument('--tier', default='quick')
    ap.add_argument('--props', default=None)
    ns = ap.parse_args(argv)
    if ns.cmd == 'list':
        for mid, m in MUTANTS.items():
            print('%-4s %-40s %-14s %s' % (mid, m['path'], ','.join(m['props']), m['desc']))
        return 0
    if ns.cmd == 'run':
        props = ns.props.split(',') if ns.props else None
        run_mutant(ns.mid, ns.tier, props)
        return 0
    table = {}
    for mid, m in MUTANTS.items():
        if m['old'] is None:
            continue
        table[mid] = run_mutant(mid, ns.tier)
    print(json.dumps(table, indent=1))
    return 0


if __name__ == '__main__':
    sys.exit(main(sys.argv[1:]))

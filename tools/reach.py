#!/venv/bin/python
"""
tools/reach.py [--tier quick] [C01 C02 ...]
Which lines of /repo/src/xdoctest do the in-process workloads of the checks reach?  Runs the checks with
XV_COVER set (workers record executed lines through sys.monitoring), merges the shards and prints, per source
file, executable lines / reached lines and the unreached ranges.  Subprocess workloads (CLI, pytest) are not
measured.  Evidence goes to a scratch XV_OUT; nothing under /verif changes.
"""
import os
import sys
import json
import glob
import shutil
import tempfile
import subprocess

VERIF = os.path.dirname(os.path.dirname(os.path.abspath(__file__)))
REPO = os.environ.get('XV_REPO', '/repo')


def executable_lines(path):
    src = open(path, encoding='utf8').read()
    code = compile(src, path, 'exec')
    lines = set()
    stack = [code]
    while stack:
        c = stack.pop()
        for _, _, ln in c.co_lines():
            if ln:
                lines.add(ln)
        stack.extend(k for k in c.co_consts if hasattr(k, 'co_lines'))
    return lines


def ranges(nums):
    out = []
    nums = sorted(nums)
    i = 0
    while i < len(nums):
        j = i
        while j + 1 < len(nums) and nums[j + 1] == nums[j] + 1:
            j += 1
        out.append('%d' % nums[i] if i == j else '%d-%d' % (nums[i], nums[j]))
        i = j + 1
    return out


def main(argv):
    tier = 'quick'
    if '--tier' in argv:
        k = argv.index('--tier')
        tier = argv[k + 1]
        del argv[k:k + 2]
    props = argv or ['C%02d' % i for i in range(1, 21)]
    cov = tempfile.mkdtemp(prefix='xv_reach_')
    out = tempfile.mkdtemp(prefix='xv_reach_out_')
    try:
        for p in props:
            env = dict(os.environ, XV_COVER=cov, XV_OUT=out)
            r = subprocess.run([os.path.join(VERIF, 'check'), p, '--tier', tier], env=env, stdout=subprocess.PIPE,
                               stderr=subprocess.STDOUT, text=True)
            print('%s exit=%d' % (p, r.returncode), file=sys.stderr)
        reached = {}
        for f in glob.glob(os.path.join(cov, 'reach-*.json')):
            for k, v in json.load(open(f)).items():
                reached.setdefault(k, set()).update(v)
        root = os.path.join(REPO, 'src')
        tot_e = tot_r = 0
        for dp, dn, fn in os.walk(os.path.join(root, 'xdoctest')):
            dn[:] = [d for d in dn if d != '__pycache__']
            for f in sorted(fn):
                if not f.endswith('.py'):
                    continue
                path = os.path.join(dp, f)
                rel = os.path.relpath(path, root)
                ex = executable_lines(path)
                rc = reached.get(rel, set()) & ex
                tot_e += len(ex)
                tot_r += len(rc)
                miss = ex - rc
                print('%-45s %5d / %5d  %3d%%   unreached: %s' % (rel, len(rc), len(ex), 100 * len(rc) // max(1, len(ex)),
                                                                  ' '.join(ranges(miss))[:400]))
        print('TOTAL %d / %d = %d%%' % (tot_r, tot_e, 100 * tot_r // max(1, tot_e)))
    finally:
        shutil.rmtree(cov, ignore_errors=True)
        shutil.rmtree(out, ignore_errors=True)


if __name__ == '__main__':
    main(sys.argv[1:])

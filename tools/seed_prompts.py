#!/venv/bin/python
"""
tools/seed_prompts.py <round letter> [hints.json]
Writes /tmp/seedprompts/S<nn><round>.txt for the 20 properties and creates scratch worktrees /tmp/seedwt/S<nn><round>
of /repo HEAD.  A prompt holds only the property's title, statement and scope, the working rules, and one-line summaries
of the earlier seeded changes for that property (so that the new one uses another mechanism); nothing else from /verif.
hints.json: {"C01": "This time, aim at ...", ...} (optional extra sentence per property).
"""
import os, sys, json, glob, subprocess
VERIF = os.path.dirname(os.path.dirname(os.path.abspath(__file__)))
rnd = sys.argv[1]
hints = json.load(open(sys.argv[2])) if len(sys.argv) > 2 else {}
props = [json.loads(l) for l in open(os.path.join(VERIF, 'properties.jsonl')) if l.strip()]
earlier = {}
for mp in sorted(glob.glob(os.path.join(VERIF, 'seeded', '*', 'meta.json'))):
    m = json.load(open(mp))
    earlier.setdefault(m['property'], []).append(m['summary'])
os.makedirs('/tmp/seedprompts', exist_ok=True)
os.makedirs('/tmp/seedwt', exist_ok=True)
TEMPLATE = open(os.path.join(VERIF, 'tools', 'seed_prompt_template.txt')).read()
for p in props:
    sid = 'S%s%s' % (p['id'][1:], rnd)
    wt = '/tmp/seedwt/' + sid
    subprocess.run(['git', '-C', '/repo', 'worktree', 'remove', '--force', wt], capture_output=True)
    subprocess.run(['rm', '-rf', wt])
    r = subprocess.run(['git', '-C', '/repo', 'worktree', 'add', '-q', '--detach', wt, 'HEAD'], capture_output=True, text=True)
    if r.returncode:
        raise SystemExit(r.stderr)
    prev = '\n'.join('  %d. "%s"' % (i + 1, s.replace('"', "'")) for i, s in enumerate(earlier.get(p['id'], [])))
    text = (TEMPLATE.replace('@WT@', wt).replace('@SID@', sid).replace('@TITLE@', p['title'])
            .replace('@STATEMENT@', p['statement']).replace('@SCOPE@', p['quantifier']['text'])
            .replace('@HINT@', hints.get(p['id'], '')).replace('@EARLIER@', prev))
    open('/tmp/seedprompts/%s.txt' % sid, 'w').write(text)
    print(sid, len(text))

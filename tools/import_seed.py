#!/venv/bin/python
"""
Takes an independently written breaking change out of its scratch worktree into /verif/seeded/<id>/ and
re-confirms every claim in a fresh scratch worktree of /repo (removed afterwards):

    tools/import_seed.py <id> <worktree> <property> [--summary ..] [--needs ..]

  1. `git -C <worktree> diff` -> seeded/<id>/patch.diff, <worktree>/DEMO.py -> seeded/<id>/DEMO.py
  2. fresh worktree of /repo HEAD under /tmp: the demo must exit 0 there, the patch must apply,
     the demo must exit 1 with it
  3. the repository's own test-suite must give the baseline result (298 passed, the 2 always-failing
     entry-point tests) with the patch applied
  4. writes seeded/<id>/meta.json with what was run and observed
"""
import os
import re
import sys
import json
import shutil
import subprocess

VERIF = os.path.dirname(os.path.dirname(os.path.abspath(__file__)))
SEEDED = os.path.join(VERIF, 'seeded')


def sh(cmd, **kw):
    return subprocess.run(cmd, stdout=subprocess.PIPE, stderr=subprocess.STDOUT, text=True, **kw)


def main(argv):
    import argparse
    ap = argparse.ArgumentParser()
    ap.add_argument('sid')
    ap.add_argument('worktree')
    ap.add_argument('property')
    ap.add_argument('--summary', default='')
    ap.add_argument('--needs', default='')
    ap.add_argument('--skip-suite', action='store_true')
    ap.add_argument('--existing', action='store_true', help='re-confirm seeded/<id>/patch.diff and DEMO.py as they are (worktree argument ignored)')
    ns = ap.parse_args(argv)
    d = os.path.join(SEEDED, ns.sid)
    os.makedirs(d, exist_ok=True)
    if ns.existing:
        diff = open(os.path.join(d, 'patch.diff')).read()
    else:
        diff = sh(['git', '-C', ns.worktree, 'diff']).stdout
        if not diff.strip():
            raise SystemExit('no uncommitted change in %s' % ns.worktree)
        with open(os.path.join(d, 'patch.diff'), 'w') as f:
            f.write(diff)
        shutil.copy(os.path.join(ns.worktree, 'DEMO.py'), os.path.join(d, 'DEMO.py'))
    files = re.findall(r'^\+\+\+ b/(.*)$', diff, flags=re.M)
    scratch = '/tmp/seed_verify_%s' % ns.sid
    sh(['git', '-C', '/repo', 'worktree', 'remove', '--force', scratch])
    shutil.rmtree(scratch, ignore_errors=True)
    r = sh(['git', '-C', '/repo', 'worktree', 'add', '--detach', scratch, 'HEAD'])
    if r.returncode != 0:
        raise SystemExit(r.stdout)
    ran = []
    try:
        env = dict(os.environ, PYTHONPATH=os.path.join(scratch, 'src'), PYTHONDONTWRITEBYTECODE='1')
        env.pop('XDOCTEST_VERIF', None)
        # (the demonstration runs from the root of the tree it judges: some locate the sources relative to themselves)
        shutil.copy(os.path.join(d, 'DEMO.py'), os.path.join(scratch, 'DEMO.py'))
        demo = ['/venv/bin/python', os.path.join(scratch, 'DEMO.py')]
        p0 = sh(demo, env=env, cwd=scratch, timeout=900)
        ran.append('demo on the unchanged tree: exit %d' % p0.returncode)
        pa = sh(['git', '-C', scratch, 'apply', os.path.join(d, 'patch.diff')])
        if pa.returncode != 0:
            raise SystemExit('patch does not apply to /repo HEAD: %s' % pa.stdout)
        p1 = sh(demo, env=env, cwd=scratch, timeout=900)
        ran.append('demo with the change: exit %d' % p1.returncode)
        suite = None
        if not ns.skip_suite:
            ps = sh(['/venv/bin/python', '-m', 'pytest', '-q', '-p', 'no:cacheprovider', '--timeout=900'], env=env,
                    cwd=scratch, timeout=3600)
            tail = ps.stdout.strip().splitlines()
            suite = tail[-1] if tail else ''
            failed = sorted(set(re.findall(r'^FAILED (\S+)', ps.stdout, flags=re.M)))
            ran.append('repository test-suite with the change: %s; failed: %s' % (suite, failed))
        ok = (p0.returncode == 0 and p1.returncode == 1 and
              (ns.skip_suite or ('298 passed' in suite and '2 failed' in suite and
                                 all('test_entry_point' in f for f in failed))))
        meta = {
            'id': ns.sid,
            'property': ns.property,
            'summary': ns.summary,
            'needs_to_manifest': ns.needs,
            'files_changed': files,
            'demo': 'DEMO.py',
            'origin': 'written by a fresh sub-agent that saw only the property text and a scratch worktree of /repo',
            'confirmed': ok,
            'what_was_run': ran,
            'repo_head_at_confirmation': sh(['git', '-C', '/repo', 'rev-parse', '--short', 'HEAD']).stdout.strip(),
        }
        old = {}
        mp = os.path.join(d, 'meta.json')
        if os.path.exists(mp):
            old = json.load(open(mp))
        for k in old:
            # notes added by hand (tools/seed_note.py) and, with --existing, summary / needs survive a re-confirmation
            if k not in meta or (ns.existing and k in ('summary', 'needs_to_manifest', 'property') and not getattr(ns, {'summary': 'summary', 'needs_to_manifest': 'needs', 'property': 'property'}[k])):
                meta[k] = old[k]
        if ns.existing and old.get('property'):
            meta['property'] = old['property']
            meta['summary'] = ns.summary or old.get('summary', '')
            meta['needs_to_manifest'] = ns.needs or old.get('needs_to_manifest', '')
        with open(mp, 'w') as f:
            json.dump(meta, f, indent=1)
            f.write('\n')
        print('%s: confirmed=%s' % (ns.sid, ok))
        for x in ran:
            print('   ', x)
        if not ok:
            print(p1.stdout[-600:])
    finally:
        sh(['git', '-C', '/repo', 'worktree', 'remove', '--force', scratch])
        shutil.rmtree(scratch, ignore_errors=True)
    return 0


if __name__ == '__main__':
    sys.exit(main(sys.argv[1:]))
